From Coq Require Import List Arith Bool Lia String.
Import ListNotations.
Open Scope list_scope.

(* ---------- tokens of the expression sub-language of mal.g4 ---------- *)
Inductive sop := OUnion | OInter | ODiff.
Inductive tok := TId (s : string) | TLP | TRP | TDot | TStar | TLSq | TRSq | TOp (o : sop) | TComma | TOther.

(* ---------- concrete syntax trees = ANTLR parse trees of  expr / parts / part ---------- *)
Inductive cexpr := CE (p : cparts) (tl : etail)
with etail := ENil | ECons (o : sop) (p : cparts) (tl : etail)
with cparts := CP (p : cpart) (tl : dtail)
with dtail := DNil | DCons (p : cpart) (tl : dtail)
with cpart := CPart (a : catom) (star : bool) (tys : list string)
with catom := CParen (e : cexpr) | CVar (v : string) | CId (x : string).

Scheme cexpr_mind := Induction for cexpr Sort Prop
with etail_mind := Induction for etail Sort Prop
with cparts_mind := Induction for cparts Sort Prop
with dtail_mind := Induction for dtail Sort Prop
with cpart_mind := Induction for cpart Sort Prop
with catom_mind := Induction for catom Sort Prop.
Combined Scheme cst_mutind from cexpr_mind, etail_mind, cparts_mind, dtail_mind, cpart_mind, catom_mind.

Fixpoint ftys (l : list string) : list tok :=
  match l with [] => [] | t :: r => TLSq :: TId t :: TRSq :: ftys r end.

Fixpoint fe (e : cexpr) : list tok := match e with CE p tl => fps p ++ fet tl end
with fet (t : etail) : list tok := match t with ENil => [] | ECons o p tl => TOp o :: fps p ++ fet tl end
with fps (p : cparts) : list tok := match p with CP p tl => fp p ++ fdt tl end
with fdt (t : dtail) : list tok := match t with DNil => [] | DCons p tl => TDot :: fp p ++ fdt tl end
with fp (p : cpart) : list tok :=
  match p with CPart a st tys => fa a ++ (if st then [TStar] else []) ++ ftys tys end
with fa (a : catom) : list tok :=
  match a with CParen e => TLP :: fe e ++ [TRP] | CVar v => [TId v; TLP; TRP] | CId x => [TId x] end.

(* ---------- recursive-descent parser, all functions decrease one shared fuel ---------- *)
Fixpoint ptys (toks : list tok) : list string * list tok :=
  match toks with
  | TLSq :: TId t :: TRSq :: r => let (l, r') := ptys r in (t :: l, r')
  | _ => ([], toks)
  end.

Fixpoint pe (n : nat) (toks : list tok) : option (cexpr * list tok) :=
  match n with O => None | S n =>
    match pps n toks with
    | Some (p, r) => match pet n r with Some (tl, r') => Some (CE p tl, r') | None => None end
    | None => None end end
with pet (n : nat) (toks : list tok) : option (etail * list tok) :=
  match n with O => None | S n =>
    match toks with
    | TOp o :: r => match pps n r with
                    | Some (p, r1) => match pet n r1 with Some (tl, r2) => Some (ECons o p tl, r2) | None => None end
                    | None => None end
    | _ => Some (ENil, toks) end end
with pps (n : nat) (toks : list tok) : option (cparts * list tok) :=
  match n with O => None | S n =>
    match pp n toks with
    | Some (p, r) => match pdt n r with Some (tl, r') => Some (CP p tl, r') | None => None end
    | None => None end end
with pdt (n : nat) (toks : list tok) : option (dtail * list tok) :=
  match n with O => None | S n =>
    match toks with
    | TDot :: r => match pp n r with
                   | Some (p, r1) => match pdt n r1 with Some (tl, r2) => Some (DCons p tl, r2) | None => None end
                   | None => None end
    | _ => Some (DNil, toks) end end
with pp (n : nat) (toks : list tok) : option (cpart * list tok) :=
  match n with O => None | S n =>
    match pa n toks with
    | Some (a, r) =>
        let (st, r1) := match r with TStar :: r1 => (true, r1) | _ => (false, r) end in
        let (tys, r2) := ptys r1 in Some (CPart a st tys, r2)
    | None => None end end
with pa (n : nat) (toks : list tok) : option (catom * list tok) :=
  match n with O => None | S n =>
    match toks with
    | TLP :: r => match pe n r with Some (e, TRP :: r') => Some (CParen e, r') | _ => None end
    | TId v :: TLP :: TRP :: r => Some (CVar v, r)
    | TId x :: r => Some (CId x, r)
    | _ => None end end.

(* weights: enough fuel *)
Fixpoint we (e : cexpr) : nat := match e with CE p tl => 1 + wps p + wet tl end
with wet (t : etail) : nat := match t with ENil => 1 | ECons _ p tl => 1 + wps p + wet tl end
with wps (p : cparts) : nat := match p with CP p tl => 1 + wp p + wdt tl end
with wdt (t : dtail) : nat := match t with DNil => 1 | DCons p tl => 1 + wp p + wdt tl end
with wp (p : cpart) : nat := match p with CPart a _ _ => 1 + wa a end
with wa (a : catom) : nat := match a with CParen e => 1 + we e | _ => 1 end.

(* what may follow: at the end of an expr there is no continuation token *)
Definition hd_is (P : tok -> bool) (l : list tok) := match l with t :: _ => P t | [] => false end.
Definition is_op t := match t with TOp _ => true | _ => false end.
Definition is_dot t := match t with TDot => true | _ => false end.
Definition is_star t := match t with TStar => true | _ => false end.
Definition is_lsq t := match t with TLSq => true | _ => false end.
Definition is_lp t := match t with TLP => true | _ => false end.
Definition stop (l : list tok) :=
  hd_is is_op l = false /\ hd_is is_dot l = false /\ hd_is is_star l = false /\ hd_is is_lsq l = false /\ hd_is is_lp l = false.

Lemma ptys_ftys tys rest : hd_is is_lsq rest = false -> ptys (ftys tys ++ rest) = (tys, rest).
Proof.
  intros H. induction tys as [|t r IH]; cbn.
  - destruct rest as [|t rest]; [reflexivity|]. destruct t; cbn in *; try reflexivity; discriminate.
  - rewrite IH. reflexivity.
Qed.


Lemma hd_fet P tl rest : (forall o, P (TOp o) = false) -> hd_is P rest = false -> hd_is P (fet tl ++ rest) = false.
Proof. intros A B. destruct tl; cbn; auto. Qed.
Lemma hd_fdt P tl rest : P TDot = false -> hd_is P rest = false -> hd_is P (fdt tl ++ rest) = false.
Proof. intros A B. destruct tl; cbn; auto. Qed.

(* ---------- completeness: the parser rebuilds every parse tree from its yield ---------- *)
Theorem parse_yield :
  (forall e n rest, we e <= n -> hd_is is_op rest = false -> hd_is is_dot rest = false ->
       hd_is is_star rest = false -> hd_is is_lsq rest = false -> hd_is is_lp rest = false ->
       pe n (fe e ++ rest) = Some (e, rest)) /\
  (forall t n rest, wet t <= n -> hd_is is_op rest = false -> hd_is is_dot rest = false ->
       hd_is is_star rest = false -> hd_is is_lsq rest = false -> hd_is is_lp rest = false ->
       pet n (fet t ++ rest) = Some (t, rest)) /\
  (forall p n rest, wps p <= n -> hd_is is_dot rest = false ->
       hd_is is_star rest = false -> hd_is is_lsq rest = false -> hd_is is_lp rest = false ->
       pps n (fps p ++ rest) = Some (p, rest)) /\
  (forall t n rest, wdt t <= n -> hd_is is_dot rest = false ->
       hd_is is_star rest = false -> hd_is is_lsq rest = false -> hd_is is_lp rest = false ->
       pdt n (fdt t ++ rest) = Some (t, rest)) /\
  (forall p n rest, wp p <= n ->
       hd_is is_star rest = false -> hd_is is_lsq rest = false -> hd_is is_lp rest = false ->
       pp n (fp p ++ rest) = Some (p, rest)) /\
  (forall a n rest, wa a <= n -> hd_is is_lp rest = false ->
       pa n (fa a ++ rest) = Some (a, rest)).
Proof.
  apply cst_mutind.
  - (* CE *) intros p IHp tl IHtl n rest Hn H1 H2 H3 H4 H5. cbn [we fe] in *.
    destruct n as [|n]; [lia|]. cbn [pe]. rewrite <- app_assoc.
    rewrite IHp; try lia; try (apply hd_fet; auto).
    rewrite IHtl; auto; lia.
  - (* ENil *) intros n rest Hn H1 _ _ _ _. destruct n; [cbn in Hn; lia|]. cbn.
    destruct rest as [|t r]; [reflexivity|]. destruct t; cbn in H1; try reflexivity; discriminate.
  - (* ECons *) intros o p IHp tl IHtl n rest Hn H1 H2 H3 H4 H5. cbn [wet fet] in *.
    destruct n as [|n]; [lia|]. cbn [pet app]. rewrite <- app_assoc.
    rewrite IHp; try lia; try (apply hd_fet; auto).
    rewrite IHtl; auto; lia.
  - (* CP *) intros p IHp tl IHtl n rest Hn H2 H3 H4 H5. cbn [wps fps] in *.
    destruct n as [|n]; [lia|]. cbn [pps]. rewrite <- app_assoc.
    rewrite IHp; try lia; try (apply hd_fdt; auto).
    rewrite IHtl; auto; lia.
  - (* DNil *) intros n rest Hn H2 _ _ _. destruct n; [cbn in Hn; lia|]. cbn.
    destruct rest as [|t r]; [reflexivity|]. destruct t; cbn in H2; try reflexivity; discriminate.
  - (* DCons *) intros p IHp tl IHtl n rest Hn H2 H3 H4 H5. cbn [wdt fdt] in *.
    destruct n as [|n]; [lia|]. cbn [pdt app]. rewrite <- app_assoc.
    rewrite IHp; try lia; try (apply hd_fdt; auto).
    rewrite IHtl; auto; lia.
  - (* CPart *) intros a IHa st tys n rest Hn H3 H4 H5. cbn [wp fp] in *.
    destruct n as [|n]; [lia|]. cbn [pp]. rewrite <- !app_assoc.
    destruct st.
    + rewrite IHa by (cbn; auto; lia). cbn [app]. rewrite ptys_ftys by auto. reflexivity.
    + cbn [app]. destruct tys as [|t tys'].
      * cbn [ftys app]. rewrite IHa by (auto; lia).
        destruct rest as [|t0 r]; [reflexivity|]. destruct t0; cbn in H3, H4 |- *; try reflexivity; try discriminate.
      * rewrite IHa by (cbn; auto; lia).
        change (ftys (t :: tys') ++ rest) with (TLSq :: TId t :: TRSq :: (ftys tys' ++ rest)).
        cbn [ptys]. rewrite ptys_ftys by auto. reflexivity.
  - (* CParen *) intros e IHe n rest Hn H5. cbn [wa fa] in *.
    destruct n as [|n]; [lia|]. cbn [pa app]. rewrite <- app_assoc. cbn [app].
    rewrite IHe by (cbn; auto; lia). reflexivity.
  - (* CVar *) intros v n rest Hn H5. destruct n; [cbn in Hn; lia|]. reflexivity.
  - (* CId *) intros x n rest Hn H5. destruct n; [cbn in Hn; lia|]. cbn.
    destruct rest as [|t r]; [reflexivity|]. destruct t; try reflexivity. cbn in H5. discriminate.
Qed.
Print Assumptions parse_yield.
