From Coq Require Import List ZArith Bool Lia Relations.
Import ListNotations.
Open Scope list_scope.

Definition mem (x : Z) (l : list Z) := existsb (Z.eqb x) l.
Lemma mem_In x l : mem x l = true <-> In x l.
Proof. unfold mem. rewrite existsb_exists. split.
 - intros [y [H1 H2]]. apply Z.eqb_eq in H2. subst; auto.
 - intros H. exists x. split; auto. apply Z.eqb_refl. Qed.
Lemma mem_nIn x l : mem x l = false <-> ~ In x l.
Proof. rewrite <- mem_In. destruct (mem x l); intuition congruence. Qed.

(* keep the elements of l that are not in seen, without repetition, in order of first occurrence *)
Fixpoint fresh (seen l : list Z) : list Z :=
  match l with
  | [] => []
  | y :: r => if mem y seen then fresh seen r else y :: fresh (y :: seen) r
  end.
Lemma fresh_spec : forall l seen y, In y (fresh seen l) <-> In y l /\ ~ In y seen.
Proof.
  induction l as [|a r IH]; intros seen y; cbn; [tauto|].
  destruct (mem a seen) eqn:E.
  - rewrite IH. apply mem_In in E. split; [tauto|]. intros [[<-|H] N]; tauto.
  - apply mem_nIn in E. cbn. rewrite IH. cbn. split.
    + intros [<-|[H N]]; [tauto|]. split; [tauto|]. intros A; apply N; auto.
    + intros [[<-|H] N]; [tauto|]. destruct (Z.eq_dec a y); [tauto|]. right; split; auto. intros [?|?]; tauto.
Qed.
Lemma fresh_NoDup : forall l seen, NoDup (fresh seen l).
Proof.
  induction l as [|a r IH]; intros seen; cbn; [constructor|].
  destruct (mem a seen); auto. constructor; auto. rewrite fresh_spec. cbn. tauto.
Qed.

Section Closure.
Variable succ : Z -> list Z.       (* one step of the sub-expression from one asset *)
Variable U : list Z.               (* the (finite) set of live assets *)
Hypothesis succ_in_U : forall a b, In b (succ a) -> In b U.
Definition R (a b : Z) := In b (succ a).

(* the transitive operator with a visited set: result in order of discovery; the start asset is in the
   result only if it is reachable from itself *)
Fixpoint bfs (fuel : nat) (frontier seen : list Z) : option (list Z) :=
  match fuel with
  | O => None
  | S f => match frontier with
           | [] => Some seen
           | _ => let new := fresh seen (flat_map succ frontier) in bfs f new (seen ++ new)
           end
  end.
Definition closure (x : Z) := bfs (length U + 2) [x] [].

Definition Closed (x : Z) (frontier seen : list Z) :=
  forall a, (a = x \/ In a seen) -> ~ In a frontier -> forall b, In b (succ a) -> In b seen.

Lemma bfs_sound_complete x : forall fuel frontier seen out,
  bfs fuel frontier seen = Some out ->
  (forall y, In y seen -> clos_trans Z R x y) ->
  (forall a, In a frontier -> a = x \/ In a seen) ->
  Closed x frontier seen ->
  forall y, In y out <-> clos_trans Z R x y.
Proof.
  induction fuel as [|f IH]; intros frontier seen out H Hs Hf Hc; [discriminate|].
  unfold Closed in *. cbn [bfs] in H. destruct frontier as [|a0 fr].
  - inversion H; subst. intros y; split; auto.
    intros Hy. apply clos_trans_t1n in Hy.
    assert (G: forall a z, clos_trans_1n Z R a z -> (a = x \/ In a out) -> In z out).
    { clear Hy y. intros a z Haz. induction Haz as [a b Hab | a b c Hab Hbc IHc]; intros Ha.
      - apply (Hc a Ha); auto.
      - apply IHc. right. apply (Hc a Ha); auto. }
    apply (G x y); auto.
  - set (frontier := a0 :: fr) in *. set (new := fresh seen (flat_map succ frontier)) in *.
    apply (IH new (seen ++ new) out H).
    + intros y Hy. apply in_app_or in Hy. destruct Hy as [Hy|Hy]; auto.
      unfold new in Hy. apply fresh_spec in Hy. destruct Hy as [Hy _].
      apply in_flat_map in Hy. destruct Hy as (a & Ha & Hay).
      destruct (Hf a Ha) as [->|Has]; [apply t_step; auto|].
      eapply t_trans; [apply Hs; eauto | apply t_step; auto].
    + intros a Ha. right. apply in_or_app; auto.
    + intros a Ha Hn b Hb.
      assert (Ha' : a = x \/ In a seen).
      { destruct Ha as [?|Ha]; auto. apply in_app_or in Ha. destruct Ha; auto. contradiction. }
      destruct (in_dec Z.eq_dec a frontier) as [Hin|Hnin].
      * destruct (in_dec Z.eq_dec b seen) as [?|Hbn]; [apply in_or_app; auto|].
        apply in_or_app; right. unfold new. apply fresh_spec. split; auto.
        apply in_flat_map. exists a; auto.
      * apply in_or_app; left. apply (Hc a Ha' Hnin); auto.
Qed.

Lemma NoDup_app_disj (l1 l2 : list Z) : NoDup l1 -> NoDup l2 -> (forall y, In y l2 -> ~ In y l1) -> NoDup (l1 ++ l2).
Proof.
  induction l1 as [|a r IH]; cbn; intros H1 H2 Hd; auto.
  inversion H1; subst. constructor.
  - rewrite in_app_iff. intros [A|A]; [tauto|]. apply (Hd a A). left; auto.
  - apply IH; auto. intros y Hy A. apply (Hd y Hy). right; auto.
Qed.

Lemma bfs_terminates : forall fuel frontier seen,
  NoDup seen -> incl seen U -> length U - length seen + 2 <= fuel ->
  bfs fuel frontier seen <> None.
Proof.
  induction fuel as [|f IH]; intros frontier seen Hnd Hincl Hfuel; [lia|].
  cbn [bfs]. destruct frontier as [|a0 fr]; [discriminate|].
  set (new := fresh seen (flat_map succ (a0 :: fr))).
  assert (Hnd' : NoDup (seen ++ new)).
  { apply NoDup_app_disj; auto; [apply fresh_NoDup|]. intros y Hy. apply fresh_spec in Hy. tauto. }
  assert (Hincl' : incl (seen ++ new) U).
  { intros y Hy. apply in_app_or in Hy. destruct Hy as [Hy|Hy]; auto.
    apply fresh_spec in Hy. destruct Hy as [Hy _]. apply in_flat_map in Hy.
    destruct Hy as (a & _ & Hay). eapply succ_in_U; eauto. }
  pose proof (NoDup_incl_length Hnd' Hincl') as Hlen. rewrite app_length in Hlen.
  destruct new as [|n0 nr] eqn:En.
  - destruct f as [|f']; [lia|]. cbn. discriminate.
  - apply IH; auto. rewrite app_length. cbn [length] in *. lia.
Qed.

Theorem closure_total x : exists out, closure x = Some out.
Proof.
  unfold closure. destruct (bfs (length U + 2) [x] []) eqn:E; eauto.
  exfalso. revert E. apply bfs_terminates; [constructor | intros ? [] | cbn; lia].
Qed.
Theorem closure_spec x out : closure x = Some out -> forall y, In y out <-> clos_trans Z R x y.
Proof.
  intros H. apply (bfs_sound_complete x _ _ _ _ H).
  - intros y [].
  - intros a [<-|[]]; auto.
  - intros a [->|[]] Hn. exfalso. apply Hn. left; auto.
Qed.
End Closure.
Print Assumptions closure_spec.
Print Assumptions closure_total.
