"""Seeded generation of instance models over a language (through the real Model API), the view of a Model that
attack-graph generation reads (coq/theories/Eval.v imodel), and its printing as a Gallina term."""
from __future__ import annotations
import random
from . import common as C
from . import langgen as LG

NAME_POOL = ['n0', 'n1', 'n2', 'n3', 'n4', 'n5', 'srv', 'db']


def make_lang(impl, L):
    from maltoolbox.language import LanguageGraph, LanguageClassesFactory
    lg = LanguageGraph(L)
    return lg, LanguageClassesFactory(lg)


def defenses_of(lg, type_name):
    a = lg.get_asset_by_name(type_name)
    return [s.name for s in a.attack_steps if s.type == 'defense']


def assoc_class(lcf, assoc):
    name = lcf.get_association_by_signature(assoc.name, assoc.left_field.asset.name, assoc.right_field.asset.name)
    return name, getattr(lcf.ns, name)


def gen_model(impl, rng: random.Random, L, lg, lcf, n_assets=(0, 6), tricky_names=0.0, explicit_ids=0.2,
              link_density=0.6, self_links=0.15):
    """Build a random valid model through the API. Invalid attempts (rejected by validation) are skipped."""
    from maltoolbox.model import Model
    st = LG.Static(L)
    m = Model('gen', lcf)
    types = [a['name'] for a in L['assets']]
    n = rng.randint(*n_assets)
    for i in range(n):
        t = rng.choice(types)
        if rng.random() < tricky_names:
            name = rng.choice(['x', 'x:1', 'x:1:1', 'a:b', 'x'])
        else:
            name = rng.choice(NAME_POOL) if rng.random() < 0.3 else f'{t.lower()}{i}'
        a = getattr(lcf.ns, t)(name=name)
        for d in defenses_of(lg, t):
            if rng.random() < 0.45:
                setattr(a, d, rng.choice([0.0, 1.0, 0.5, 0.25, 0.75]))
        aid = None
        if rng.random() < explicit_ids:
            aid = rng.choice([0, 1, 2, 3, 5, 8, 13, -1, -4, 21, 34])
        try:
            m.add_asset(a, asset_id=aid)
        except ValueError:
            m.add_asset(a)
    for assoc in lg.associations:
        cname, cls = assoc_class(lcf, assoc)
        lf, rf = assoc.left_field, assoc.right_field
        lefts = [a for a in m.assets if st.is_sub(str(a.type), lf.asset.name)]
        rights = [a for a in m.assets if st.is_sub(str(a.type), rf.asset.name)]
        if not lefts or not rights:
            continue
        for _ in range(rng.randint(0, 3)):
            if rng.random() > link_density:
                continue
            kl = 1 if (lf.maximum == 1 or rng.random() < 0.6) else rng.randint(1, min(3, len(lefts)))
            kr = 1 if (rf.maximum == 1 or rng.random() < 0.6) else rng.randint(1, min(3, len(rights)))
            ls = rng.sample(lefts, min(kl, len(lefts)))
            rs = rng.sample(rights, min(kr, len(rights)))
            if rng.random() < self_links:
                both = [a for a in ls if any(a is b for b in rights)]
                if both and not any(both[0] is r for r in rs):
                    rs = [both[0]] + rs[:max(0, kr - 1)]
            try:
                obj = cls()
                setattr(obj, lf.fieldname, ls)
                setattr(obj, rf.fieldname, rs)
                m.add_association(obj)
            except Exception:
                continue
    return m


def view(m):
    """The imodel view: (assets [(id, name, type, defs, backref indices)], assocs [(class, lf, lids, rf, rids)])."""
    lg = m.lang_classes_factory.lang_graph
    assocs = []
    for c in m.associations:
        lf, rf = list(m.get_association_field_names(c))
        assocs.append((c.__class__.__name__, str(lf), [int(a.id) for a in getattr(c, lf)],
                       str(rf), [int(a.id) for a in getattr(c, rf)]))
    assets = []
    for a in m.assets:
        defs = [(d, float(getattr(a, d))) for d in defenses_of(lg, str(a.type))]
        refs = []
        for c in a.associations:
            idx = next((i for i, x in enumerate(m.associations) if x is c), None)
            refs.append(idx if idx is not None else 10 ** 6)
        assets.append((int(a.id), str(a.name), str(a.type), defs, refs))
    return assets, assocs


def c_imodel(v) -> str:
    assets, assocs = v
    def d1024(x):
        y = x * 1024
        assert y == int(y), x
        return int(y)
    A = C.clist([
        f'(mkIAsset {C.cZ(i)} {C.cstr(n)} {C.cstr(t)} '
        + C.clist([f'({C.cstr(d)}, {C.cZ(d1024(x))})' for d, x in defs]) + ' '
        + C.clist([C.cnat(r) for r in refs]) + ')' for i, n, t, defs, refs in assets])
    B = C.clist([
        f'(mkIAssoc {C.cstr(c)} {C.cstr(lf)} {C.clist([C.cZ(x) for x in l])} {C.cstr(rf)} {C.clist([C.cZ(x) for x in r])})'
        for c, lf, l, rf, r in assocs])
    return f'(mkIModel {A} {B})'
