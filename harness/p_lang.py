"""C03 — step inheritance: correspondence between LanguageGraph._get_attacks_for_asset_type and Lang.steps_of
over histories of lookups, language-graph regenerations and attack-graph generations."""
from __future__ import annotations
import copy, itertools, json, random, time
from . import common as C
from . import langgen as LG

IMPORTS = 'Prelude Lang LangThm LangObs'
CASE_TYPE = 'lang * list (string * jv) * bool'
CHECK_DEF = 'Definition check (c : lang * list (string * jv) * bool) : bool := c03_check c.'
EXTRA = {'PREMISES': 'count_true (fun c : lang * list (string * jv) * bool => wf_inherit (fst (fst c))) cases'}


def reference_steps(L, t):
    """Independent statement of the property: fold the ancestors' declarations from the root down."""
    assets = {a['name']: a for a in L['assets']}
    chain = []
    while t is not None and t in assets:
        chain.append(t)
        t = assets[t]['superAsset']
    steps = {}
    for x in reversed(chain):
        for s in assets[x]['attackSteps']:
            if s['name'] not in steps:
                steps[s['name']] = copy.deepcopy(s)
            elif s['reaches'] is None:
                pass
            elif s['reaches']['overrides']:
                steps[s['name']] = copy.deepcopy(s)
            else:
                old = steps[s['name']]
                if old['reaches'] is None:
                    old['reaches'] = {'overrides': False, 'stepExpressions': copy.deepcopy(s['reaches']['stepExpressions'])}
                else:
                    old['reaches']['stepExpressions'] = old['reaches']['stepExpressions'] + copy.deepcopy(s['reaches']['stepExpressions'])
    return [LG.j_step(s) for s in steps.values()]


def exhaustive_langs(depth):
    """Chains Aa <- Bb <- Cc (<- Dd) plus a sibling Ee of the last level; step 'sa' is absent / declared without
    reaches / '->' / '+>' at every level."""
    names = LG.ASSET_NAMES[:depth]
    kinds = ['absent', 'none', 'over', 'ext']
    for ci, combo in enumerate(itertools.product(kinds, repeat=depth)):
        for sib in ('ext', 'over'):
            assets = []
            # every third combination: 'sa' is an existence step whose requirement differs from level to level
            existence = ci % 3 == 1
            for i, (nm, k) in enumerate(zip(names, combo)):
                steps = []
                if k != 'absent':
                    reaches = None if k == 'none' else [LG.S('x' + nm.lower())]
                    if existence:
                        steps.append(LG.step('sa', 'exist', reaches=reaches, overrides=(k == 'over'),
                                             requires=[LG.F('fa' if i % 2 else 'fb')], tags=['t' + str(i)]))
                        steps.append(LG.step('x' + nm.lower(), 'or'))
                        assets.append(LG.asset(nm, names[i - 1] if i else None, steps))
                        continue
                    steps.append(LG.step('sa', 'or', reaches=reaches, overrides=(k == 'over'),
                                         ttc=LG.TTC_EXP if i % 2 else None, tags=['t' + str(i)]))
                steps.append(LG.step('x' + nm.lower(), 'or'))
                assets.append(LG.asset(nm, names[i - 1] if i else None, steps))
            assets.append(LG.asset('Ee', names[-2] if depth > 1 else names[0],
                                   [LG.step('sa', 'exist' if existence else 'or', reaches=[LG.S('xee')], overrides=(sib == 'over'),
                                            requires=[LG.F('fa')] if existence else None), LG.step('xee', 'or')]))
            yield LG.lang(assets, [LG.assoc('Pp', 'Aa', 'fa', 'Aa', 'fb')])


def run_history(impl, L, rng):
    """Interleave lookups with regenerations / attack-graph generations; returns (queries, spec_unchanged, extra)."""
    from maltoolbox.language import LanguageGraph, LanguageClassesFactory
    from maltoolbox.model import Model
    from maltoolbox.attackgraph import AttackGraph
    snapshot = copy.deepcopy(L)
    lg = LanguageGraph(L)
    names = [a['name'] for a in L['assets']]
    queries = []
    extra = []
    for _ in range(rng.randint(3, 9)):
        r = rng.random()
        if r < 0.6:
            t = rng.choice(names)
            res = lg._get_attacks_for_asset_type(t)
            queries.append((t, [LG.j_step(s) for s in res.values()]))
        elif r < 0.7:
            lg.regenerate_graph()
        elif r < 0.8:
            lg = LanguageGraph(L)
        elif r < 0.9:
            for a in lg.assets:
                extra.append((a.name, [s.name for s in a.attack_steps]))
        else:
            lcf = LanguageClassesFactory(lg)
            m = Model('m', lcf)
            for t in names:
                m.add_asset(getattr(lcf.ns, t)(name=t.lower()))
            try:
                AttackGraph(lg, m)
            except Exception as e:       # a target asset may be missing in this minimal model: irrelevant here
                pass
    for t in names:                      # every type at least once, at the end
        res = lg._get_attacks_for_asset_type(t)
        queries.append((t, [LG.j_step(s) for s in res.values()]))
    return queries, L == snapshot, extra, snapshot


def c_case(L, queries, unchanged):
    qs = C.clist([f'({C.cstr(t)}, {C.cjv(r)})' for t, r in queries])
    return f'({LG.c_lang(L)}, {qs}, {C.cbool(unchanged)})'


def check(pid: str, tier: str, seed: int):
    t0 = time.time()
    rng = random.Random(seed * 104729 + 3)
    violations, cases, metas = [], [], []
    streams = {}
    with C.Scratch():
        impl = C.import_impl()
        langs = []
        for L in exhaustive_langs(3 if tier == 'quick' else 4):
            langs.append(('exhaustive', L))
        # declaration order: the same chains declared leaf-first (every asset before its super asset) and shuffled —
        # what a type exposes is a function of its ancestors' declarations, not of where they stand in the file
        import copy as _copy
        for k, L in enumerate(exhaustive_langs(3 if tier == 'quick' else 4)):
            if k % 2:
                continue
            L2 = _copy.deepcopy(L)
            if k % 4 == 0:
                L2['assets'] = list(reversed(L2['assets']))
            else:
                rng.shuffle(L2['assets'])
            langs.append(('declaration-order', L2))
        gen = LG.LangGen(rng)
        for k in range(250 if tier == 'quick' else 3000):
            L = gen.gen()
            if k % 3 == 0:
                L = _copy.deepcopy(L)
                rng.shuffle(L['assets'])
            langs.append(('random', L))
        for stream, L in langs:
            try:
                queries, unchanged, extra, snap = run_history(impl, L, rng)
            except Exception as e:
                metas.append({'stream': stream, 'lang': L, 'error': repr(e), 'prop_viol': [f'language graph raised {type(e).__name__}']})
                continue
            viol = []
            if not unchanged:
                viol.append('the loaded language specification was modified')
            for t, r in queries:
                if r != reference_steps(snap, t):
                    viol.append(f'steps resolved for {t} differ from the root-down fold of its ancestors')
                    break
            for t, names in extra:
                if names != [s[0] for s in reference_steps(snap, t)]:
                    viol.append(f'LanguageGraphAsset.attack_steps of {t} differ from the resolved steps')
            cases.append(c_case(snap, queries, unchanged))
            metas.append({'stream': stream, 'lang': snap, 'queries': queries, 'unchanged': unchanged, 'prop_viol': viol})
            streams[stream] = streams.get(stream, 0) + 1
        bad, counters, errors = C.run_cases(pid, IMPORTS, CASE_TYPE, CHECK_DEF, cases, EXTRA, shard=100)
    if errors:
        violations.append({'message': 'the correspondence could not be evaluated', 'cause': 'coq-error',
                           'correspondence': 'corr_C03_steps_of', 'errors': errors[:3]})
    ok_metas = [m for m in metas if 'queries' in m or m.get('error')]
    propbad = [m for m in metas if m['prop_viol']]
    if propbad:
        m = propbad[0]
        violations.append({'message': m['prop_viol'][0], 'cause': m['prop_viol'][0], 'failing_input_found': True,
                           'lang': m['lang'], 'queries': m.get('queries'), 'error': m.get('error'),
                           'cases_violating': len(propbad)})
    elif bad:
        m = [x for x in metas if 'queries' in x][bad[0]]
        violations.append({'message': 'implementation and model disagree; no input found on which the property itself fails',
                           'cause': 'model-mismatch', 'correspondence': 'corr_C03_steps_of (Lang.steps_of)',
                           'lang': m['lang'], 'queries': m['queries'], 'mismatching_cases': len(bad)})
    distinct = {json.dumps(m['queries'], sort_keys=True, default=str) for m in metas
                if 'queries' in m and any(s[6] is not None and len(s[6][1]) > 1 for _, r in m['queries'] for s in r)}
    cov = {'evaluations': len(cases), 'distinct_nontrivial': len(distinct),
           'rule': 'all chains of depth 3 (quick) / 4 (thorough) with step sa absent / without reaches / -> / +> at every level and a sibling, '
                   '+ seeded type-directed random languages; each with a random history of lookups, regenerations, second language graphs '
                   'and attack-graph generations; non-trivial = some resolved step has more than one reaches expression (an extension took place)',
           'samples': [metas[0]['lang']['assets'][-2] if metas else None, metas[-1].get('queries') if metas else None],
           'streams': streams, 'premises_met': counters.get('PREMISES', 0), 'mismatches': len(bad), 'exhaustive': False}
    return {'violations': violations, 'coverage': cov, 'trusted': [],
            'assumptions': ['inheritance is acyclic (LangThm.wf_inherit, evaluated on every case)',
                            'purity is by construction in the model (a Gallina function); for the implementation it is what the '
                            'repeated lookups and the specification snapshot of this run observe']}


def replay(pid, path):
    d = json.load(open(path))
    print(json.dumps(d, indent=1)[:6000])
    return 0
