"""Attack-graph histories: the operation alphabet of coq/theories/GraphOps.v interpreted against the
real AttackGraph / AttackGraphNode / Attacker classes, a seeded generator of guarded histories, the
canonical observation, and the printer of ops as Gallina terms."""
from __future__ import annotations
import copy, signal, types, random
from . import common as C

TYPES = ['or', 'and', 'defense', 'exist', 'notExist']
TTCS = [None,
        {'type': 'function', 'name': 'Enabled', 'arguments': []},
        {'type': 'function', 'name': 'Disabled', 'arguments': []},
        {'type': 'function', 'name': 'Exponential', 'arguments': [0.5]},
        {'type': 'addition', 'lhs': {'type': 'number', 'value': 1}, 'rhs': {'type': 'number', 'value': 2}},
        {}]

class Timeout(Exception):
    pass

def _alarm(signum, frame):
    raise Timeout()

class World:
    """Mirror of GraphOps.st on the implementation side: objects in allocation order + one graph."""
    def __init__(self, impl):
        from maltoolbox.attackgraph import AttackGraph
        self.impl = impl
        self.nodes = []     # handle -> AttackGraphNode
        self.atts = []      # handle -> Attacker
        self.graph = AttackGraph()
        self.assets = {}    # asset name -> stub

    # -- handles
    def nh(self, obj):
        for i, n in enumerate(self.nodes):
            if n is obj:
                return i
        return -1
    def ah(self, obj):
        for i, a in enumerate(self.atts):
            if a is obj:
                return i
        return -1

    def asset(self, name):
        if name is None:
            return None
        if name not in self.assets:
            self.assets[name] = types.SimpleNamespace(name=name, attack_step_nodes=[])     # generation records an asset's nodes on the asset
        return self.assets[name]

    # -- one operation; returns (outcome code, return value)
    def apply(self, op):
        from maltoolbox.attackgraph import AttackGraphNode, Attacker
        from maltoolbox.attackgraph import query
        from maltoolbox.attackgraph.analyzers import apriori
        from maltoolbox.exceptions import AttackGraphException
        k = op[0]
        ret = None
        try:
            if k == 'new':
                sp = op[1]
                n = AttackGraphNode(type=sp['type'], name=sp['name'], ttc=copy.deepcopy(sp['ttc']),
                                    asset=self.asset(sp['asset']), defense_status=sp['def'],
                                    existence_status=sp['exist'], is_viable=sp['viable'],
                                    is_necessary=sp['necessary'], mitre_info=sp['mitre'],
                                    tags=list(sp['tags']), extras=copy.deepcopy(sp['extras']))
                # generation keeps the step's attribute dictionary on the node; its tags / ttc are the node's own objects
                n.attributes = {'name': sp['name'], 'type': sp['type'], 'tags': n.tags, 'ttc': n.ttc}
                if n.asset is not None:
                    n.asset.attack_step_nodes = list(n.asset.attack_step_nodes) + [n]
                self.nodes.append(n)
            elif k == 'add_node':
                self.graph.add_node(self.nodes[op[1]], node_id=op[2])
            elif k == 'remove_node':
                self.graph.remove_node(self.nodes[op[1]])
            elif k == 'link':
                p, c = self.nodes[op[1]], self.nodes[op[2]]
                p.children.append(c)
                c.parents.append(p)
            elif k == 'new_att':
                self.atts.append(Attacker(name=op[1], entry_points=[], reached_attack_steps=[]))
            elif k == 'add_att':
                # empty lists are left to the defaults of add_attacker (the way attach_attackers calls it)
                kw = {}
                if op[4]: kw['entry_points'] = list(op[4])
                if op[3]: kw['reached_attack_steps'] = list(op[3])
                self.graph.add_attacker(self.atts[op[1]], attacker_id=op[2], **kw)
            elif k == 'remove_att':
                self.graph.remove_attacker(self.atts[op[1]])
            elif k == 'compromise':
                a, n = self.atts[op[1]], self.nodes[op[2]]
                if op[3]:
                    n.compromise(a)
                else:
                    a.compromise(n)
            elif k == 'undo':
                a, n = self.atts[op[1]], self.nodes[op[2]]
                if op[3]:
                    n.undo_compromise(a)
                else:
                    a.undo_compromise(n)
            elif k == 'attach':
                infos = [types.SimpleNamespace(name=name, entry_points=[
                    (self.asset(an), list(steps)) for an, steps in eps]) for name, eps in op[1]]
                self.graph.model = types.SimpleNamespace(name='stub', attackers=infos)
                before = len(self.graph.attackers)
                try:
                    self.graph.attach_attackers()
                finally:
                    # attackers are created inside the call: register the new objects in creation order.
                    # An attacker object is created (and counted by the model) before add_attacker can fail.
                    for a in self.graph.attackers[before:]:
                        if self.ah(a) < 0:
                            self.atts.append(a)
                    self.graph.model = None
            elif k == 'calc':
                apriori.calculate_viability_and_necessity(self.graph)
            elif k == 'prune':
                apriori.prune_unviable_and_unnecessary_nodes(self.graph)
            elif k == 'set_flags':
                self.nodes[op[1]].is_viable = op[2]
                self.nodes[op[1]].is_necessary = op[3]
            elif k == 'set_ttc':
                n = self.nodes[op[1]]
                if isinstance(n.ttc, dict) and isinstance(op[2], dict):
                    n.ttc.clear()
                    n.ttc.update(copy.deepcopy(op[2]))
                else:
                    n.ttc = copy.deepcopy(op[2])
            elif k == 'set_tags':
                n = self.nodes[op[1]]
                n.tags[:] = list(op[2])
            elif k == 'set_extras':
                n = self.nodes[op[1]]
                n.extras.clear()
                n.extras.update(copy.deepcopy(op[2]))
            elif k == 'copy':
                g2 = copy.deepcopy(self.graph)
                for n in g2.nodes:
                    self.nodes.append(n)
                for a in g2.attackers:
                    self.atts.append(a)
                self.graph = g2
            elif k == 'reorder':
                self.graph.nodes = [self.nodes[i] for i in op[1]]
            elif k == 'q_trav':
                ret = bool(query.is_node_traversable_by_attacker(self.nodes[op[2]], self.atts[op[1]]))
            elif k == 'q_surface':
                live = query.get_attack_surface(self.atts[op[1]])
                self.__dict__.setdefault('live_surface', {})[op[1]] = live
                ret = [self.nh(n) for n in live]
            elif k == 'q_update':
                cur = [self.nodes[i] for i in op[2]]
                # a user hands the list the query returned back to the incremental update: use that very object when
                # it still holds the surface the history names (an aliased result would let the update write into the graph)
                live = self.__dict__.get('live_surface', {}).get(op[1])
                if live is not None and len(live) == len(cur) and all(x is y for x, y in zip(live, cur)):
                    cur = live
                ret = [self.nh(n) for n in query.update_attack_surface_add_nodes(
                    self.atts[op[1]], cur, [self.nodes[i] for i in op[3]])]
            elif k == 'q_defsurface':
                ret = [self.nh(n) for n in query.get_defense_surface(self.graph)]
            elif k == 'q_enabled':
                ret = [self.nh(n) for n in query.get_enabled_defenses(self.graph)]
            else:
                raise AssertionError('unknown op ' + k)
            return (0, ret)
        except Timeout:
            raise
        except RecursionError:
            return (6, None)
        except ValueError:
            return (1, None)
        except AttackGraphException:
            return (2, None)
        except KeyError:
            return (4, None)
        except LookupError:
            return (3, None)

    # -- canonical observation (same shape as GraphOps.obs_st)
    def obs(self):
        g = self.graph
        def flt(x):
            return x
        og = [[self.nh(n) for n in g.nodes], [self.ah(a) for a in g.attackers],
              [[k, self.nh(v)] for k, v in sorted(g._id_to_node.items())],
              [[k, self.nh(v)] for k, v in sorted(g._full_name_to_node.items(), key=lambda kv: C.skey(kv[0]))],
              [[k, self.ah(v)] for k, v in sorted(g._id_to_attacker.items())],
              g.next_node_id, g.next_attacker_id]
        on = [[n.id, [self.nh(c) for c in n.children], [self.nh(p) for p in n.parents],
               [self.ah(a) for a in n.compromised_by], bool(n.is_viable), bool(n.is_necessary),
               n.ttc, [str(t) for t in n.tags] if isinstance(n.tags, list) else ['<not a list>', str(n.tags)],
               n.extras] for n in self.nodes]
        oa = [[a.id, [self.nh(n) for n in a.entry_points], [self.nh(n) for n in a.reached_attack_steps]]
              for a in self.atts]
        return [og, on, oa]

    # -- identity-level aliasing of mutable per-node data between distinct nodes (C14), nested containers included
    def aliased(self):
        seen = {}
        out = []
        def walk(v, i, path):
            if isinstance(v, (dict, list)):
                if id(v) in seen and seen[id(v)][0] != i:
                    out.append([seen[id(v)][0], seen[id(v)][1], i, path])
                seen.setdefault(id(v), (i, path))
                items = v.items() if isinstance(v, dict) else enumerate(v)
                for k, x in items:
                    walk(x, i, path + '.' + str(k))
        for i, n in enumerate(self.nodes):
            for f in ('children', 'parents', 'compromised_by'):
                v = getattr(n, f)
                if id(v) in seen and seen[id(v)][0] != i:
                    out.append([seen[id(v)][0], seen[id(v)][1], i, f])
                seen.setdefault(id(v), (i, f))
            for f in ('tags', 'extras', 'ttc', 'attributes'):
                walk(getattr(n, f, None), i, f)
        return out


def run_history(impl, ops, per_case_timeout=10):
    """Run ops on a fresh world. Returns (outs, final obs, world)."""
    w = World(impl)
    outs = []
    old = signal.signal(signal.SIGALRM, _alarm)
    signal.alarm(per_case_timeout)
    try:
        for op in ops:
            oc, ret = w.apply(op)
            outs.append([oc, ret])
    except Timeout:
        outs.append([6, None])
    finally:
        signal.alarm(0)
        signal.signal(signal.SIGALRM, old)
    return outs, w.obs(), w


# --------------------------------------------------------------------------- ops -> Gallina

def c_node(sp) -> str:
    d = None if sp['def'] is None else int(round(sp['def'] * 1024))
    return ('(mkNode {t} {n} None {a} [] [] [] {d} {e} {v} {nec} {m} {ttc} {tags} {ex})'.format(
        t=C.cstr(sp['type']), n=C.cstr(sp['name']), a=C.copt(sp['asset'], C.cstr),
        d=C.copt(d, C.cZ), e=C.copt(sp['exist'], C.cbool), v=C.cbool(sp['viable']),
        nec=C.cbool(sp['necessary']), m=C.copt(sp['mitre'], C.cstr), ttc=C.cjv(sp['ttc']),
        tags=C.clist([C.cstr(t) for t in sp['tags']]), ex=C.cjv(sp['extras'])))

def c_op(op) -> str:
    k = op[0]
    nl = lambda l: C.clist([C.cnat(x) for x in l])
    zl = lambda l: C.clist([C.cZ(x) for x in l])
    if k == 'new': return f'ONew {c_node(op[1])}'
    if k == 'add_node': return f'OAddNode {op[1]} {C.copt(op[2], C.cZ)}'
    if k == 'remove_node': return f'ORemoveNode {op[1]}'
    if k == 'link': return f'OLink {op[1]} {op[2]}'
    if k == 'new_att': return f'ONewAtt {C.cstr(op[1])}'
    if k == 'add_att': return f'OAddAtt {op[1]} {C.copt(op[2], C.cZ)} {zl(op[3])} {zl(op[4])}'
    if k == 'remove_att': return f'ORemoveAtt {op[1]}'
    if k == 'compromise': return f'OCompromise {op[1]} {op[2]}'
    if k == 'undo': return f'OUndo {op[1]} {op[2]}'
    if k == 'attach':
        infos = C.clist(['({}, {})'.format(C.cstr(name), C.clist(
            [C.cstr(an + ':' + st) for an, steps in eps for st in steps])) for name, eps in op[1]])
        return f'OAttach {infos}'
    if k == 'calc': return 'OCalc'
    if k == 'prune': return 'OPrune'
    if k == 'set_flags': return f'OSetFlags {op[1]} {C.cbool(op[2])} {C.cbool(op[3])}'
    if k == 'set_ttc': return f'OSetTtc {op[1]} {C.cjv(op[2])}'
    if k == 'set_tags': return f'OSetTags {op[1]} {C.clist([C.cstr(t) for t in op[2]])}'
    if k == 'set_extras': return f'OSetExtras {op[1]} {C.cjv(op[2])}'
    if k == 'copy': return 'OCopy'
    if k == 'reorder': return f'OReorder {nl(op[1])}'
    if k == 'q_trav': return f'OQTrav {op[1]} {op[2]}'
    if k == 'q_surface': return f'OQSurface {op[1]}'
    if k == 'q_update': return f'OQUpdate {op[1]} {nl(op[2])} {nl(op[3])}'
    if k == 'q_defsurface': return 'OQDefSurface'
    if k == 'q_enabled': return 'OQEnabled'
    raise AssertionError(k)

def c_case(ops, outs, obs) -> str:
    return '(' + C.clist([c_op(o) for o in ops]) + ',\n  ' + C.cjv([outs, obs]) + ')'

IMPORTS = 'Prelude Graph Apriori GraphAn GraphOps'
CASE_TYPE = 'list op * jv'
CHECK_DEF = 'Definition check (c : list op * jv) : bool := jv_eqb (obs_run (fst c)) (snd c).'
EXTRA = {'GUARDS': 'count_true (fun c : list op * jv => guards_met (fst c)) cases'}


# --------------------------------------------------------------------------- generator

def rand_spec(rng: random.Random, i: int, with_asset=True, fresh=False):
    t = rng.choice(TYPES if rng.random() < 0.9 else ['or', 'and'])
    d = None
    e = None
    if t == 'defense':
        d = rng.choice([0.0, 1.0, 0.5, 0.25, 1.0, 0.0])
    if t in ('exist', 'notExist'):
        e = rng.random() < 0.5
    ttc = rng.choice(TTCS if t != 'defense' else TTCS[:3] + TTCS[:3] + TTCS[3:4])
    tags = rng.choice([[], [], ['suppress'], ['x', 'y'], ['suppress', 'z']])
    extras = rng.choice([{}, {}, {'k': 1}, {'pos': {'x': 1, 'y': -2}}])
    asset = f'a{rng.randrange(3)}' if (with_asset and rng.random() < 0.8) else None
    # step names repeat across assets (and across nodes without an asset, whose full name starts with their id)
    nm = f's{rng.randrange(i)}' if (i > 0 and rng.random() < 0.25) else f's{i}'
    return {'type': t, 'name': nm, 'ttc': ttc, 'asset': asset, 'def': d, 'exist': e,
            'viable': True if fresh else rng.random() < 0.8,
            'necessary': True if fresh else rng.random() < 0.8,
            'mitre': rng.choice([None, None, 'T1000']), 'tags': tags, 'extras': extras}


class Gen:
    """Generates a guarded history by consulting the implementation's own state as it goes
    (so that handles, ids and membership used as arguments are valid at the point of use)."""
    def __init__(self, impl, rng: random.Random, weights: dict, fresh_labels=False):
        self.impl, self.rng, self.weights = impl, rng, weights
        self.w = World(impl)
        self.ops = []
        self.fresh = fresh_labels
        self.nnames = 0
        self.bad_ids = 0.0     # probability that add_attacker is given an id that no node has (the call is rejected half-way)

    def do(self, op):
        self.ops.append(op)
        return self.w.apply(op)

    def in_graph(self):
        return [self.w.nh(n) for n in self.w.graph.nodes]
    def atts_in_graph(self):
        return [self.w.ah(a) for a in self.w.graph.attackers]

    def build(self, n_nodes, n_links, n_atts):
        rng = self.rng
        for _ in range(n_nodes):
            self.op_new_and_add()
        ing = self.in_graph()
        for _ in range(n_links):
            if ing:
                r = rng.random()
                p = rng.choice(ing)
                c = p if r < 0.1 else rng.choice(ing)
                self.do(('link', p, c))
        for _ in range(n_atts):
            self.op_new_att_and_add()

    def op_new_and_add(self):
        rng = self.rng
        i = self.nnames
        self.nnames += 1
        sp = rand_spec(rng, i, fresh=self.fresh)
        self.do(('new', sp))
        h = len(self.w.nodes) - 1
        g = self.w.graph
        r = rng.random()
        if r < 0.7:
            nid = None
        elif r < 0.9:
            nid = rng.choice([0, 1, 2, 5, 7, -1, g.next_node_id + 2])
        else:
            nid = rng.choice(list(g._id_to_node.keys()) or [3])      # deliberately used id
        # guard: fresh full name
        fn = (sp['asset'] + ':' + sp['name']) if sp['asset'] is not None else \
            (str(nid if nid is not None else g.next_node_id) + ':' + sp['name'])
        if fn in g._full_name_to_node:
            return
        self.do(('add_node', h, nid))

    def op_new_att_and_add(self):
        rng = self.rng
        out = [h for h in range(len(self.w.atts)) if h not in self.atts_in_graph()]
        if self.bad_ids and out and rng.random() < 0.3:
            h = rng.choice(out)                                 # an attacker that was rejected or removed before, added again
        else:
            self.do(('new_att', rng.choice(['alice', 'bob', 'eve'])))
            h = len(self.w.atts) - 1
        g = self.w.graph
        r = rng.random()
        aid = None if r < 0.6 else rng.choice([0, 1, 3, -2, g.next_attacker_id + 1] + list(g._id_to_attacker.keys()))
        ids = list(g._id_to_node.keys())
        reached = rng.sample(ids, min(len(ids), rng.randrange(0, 4))) if ids else []
        entry = rng.sample(reached, rng.randrange(0, len(reached) + 1)) if reached else []
        if rng.random() < 0.1 and ids:
            entry = entry + [rng.choice(ids)]
        if rng.random() < 0.2 and reached:
            reached = reached + [rng.choice(reached)]          # a step named twice is compromised once
        if rng.random() < 0.25:
            reached = []                                        # entry points without reached steps
        if self.bad_ids and rng.random() < self.bad_ids:
            unknown = max(ids + [0]) + rng.randint(1, 4)
            if rng.random() < 0.6:
                reached = reached + [unknown]                   # after the valid ones: they are compromised before the call fails
            else:
                entry = entry + [unknown]
        self.do(('add_att', h, aid, reached, entry))

    def step(self):
        rng = self.rng
        kinds = list(self.weights.keys())
        k = rng.choices(kinds, weights=[self.weights[x] for x in kinds])[0]
        ing, ats = self.in_graph(), self.atts_in_graph()
        if k == 'add_node':
            if ing and rng.random() < 0.12:
                # a node that is already in the graph: must be refused, nothing may change
                self.do(('add_node', rng.choice(ing), rng.choice([None, None, None, 7, self.w.graph.next_node_id + 1])))
            else:
                self.op_new_and_add()
        elif k == 'remove_node' and ing:
            self.do(('remove_node', rng.choice(ing)))
        elif k == 'link' and ing:
            p = rng.choice(ing)
            self.do(('link', p, p if rng.random() < 0.1 else rng.choice(ing)))
        elif k == 'add_att':
            self.op_new_att_and_add()
        elif k == 'remove_att' and ats:
            self.do(('remove_att', rng.choice(ats)))
        elif k == 'compromise' and ats and ing:
            self.do(('compromise', rng.choice(ats), rng.choice(ing), rng.random() < 0.5))
        elif k == 'undo' and ats and ing:
            a = rng.choice(ats)
            reached = [self.w.nh(n) for n in self.w.atts[a].reached_attack_steps]
            o = rng.choice(reached) if reached and rng.random() < 0.7 else rng.choice(ing)
            self.do(('undo', a, o, rng.random() < 0.5))
        elif k == 'attach':
            infos = []
            names = list(self.w.graph._full_name_to_node.keys())
            for j in range(rng.randrange(1, 3)):
                eps = []
                for _ in range(rng.randrange(0, 4)):
                    if names and rng.random() < 0.85:
                        fn = rng.choice(names)
                        an, _, stp = fn.rpartition(':')
                    else:
                        an, stp = 'a9', 'nostep'
                    eps.append((an, [stp] if rng.random() < 0.8 else [stp, 'other']))
                infos.append((rng.choice(['mallory', 'trent', 'alice']) if rng.random() < 0.97 else '', eps))
            self.do(('attach', infos))
        elif k == 'calc':
            g = self.w.graph
            ok = all(n.type in TYPES and
                     (n.type != 'defense' or (n.defense_status is not None and 0 <= n.defense_status <= 1)) and
                     (n.type not in ('exist', 'notExist') or isinstance(n.existence_status, bool))
                     for n in g.nodes)
            if ok:
                self.do(('calc',))
        elif k == 'prune':
            self.do(('prune',))
        elif k == 'set_flags' and self.w.nodes:
            self.do(('set_flags', rng.randrange(len(self.w.nodes)), rng.random() < 0.6, rng.random() < 0.6))
        elif k == 'set_ttc' and self.w.nodes:
            self.do(('set_ttc', rng.randrange(len(self.w.nodes)), rng.choice(TTCS[1:])))
        elif k == 'set_tags' and self.w.nodes:
            self.do(('set_tags', rng.randrange(len(self.w.nodes)), rng.choice([[], ['suppress'], ['q'], ['q', 'r']])))
        elif k == 'set_extras' and self.w.nodes:
            self.do(('set_extras', rng.randrange(len(self.w.nodes)), rng.choice([{}, {'m': 2}, {'n': {'o': [1, 2]}}, {'reached_at': {0: 10.0, 3: 2.5}}, {'pos': (1, 2)}])))
        elif k == 'copy':
            if self.closed():
                self.do(('copy',))
        elif k == 'reorder' and ing:
            l = list(ing)
            rng.shuffle(l)
            self.do(('reorder', l))
        elif k == 'q_trav' and ats and ing:
            self.do(('q_trav', rng.choice(ats), rng.choice(ing)))
        elif k == 'q_surface' and ats:
            self.do(('q_surface', rng.choice(ats)))
        elif k == 'q_update' and ats and ing:
            a = rng.choice(ats)
            from maltoolbox.attackgraph import query
            self.do(('q_surface', a))
            live = self.w.__dict__.get('live_surface', {}).get(a)
            if live is None:
                return
            cur = [self.w.nh(n) for n in live]
            new = rng.sample(ing, min(len(ing), rng.randrange(1, 3)))
            for o in new:
                self.do(('compromise', a, o, False))
            self.do(('q_update', a, cur, new))
            self.do(('q_surface', a))
        elif k == 'q_defsurface':
            self.do(('q_defsurface',))
        elif k == 'q_enabled':
            self.do(('q_enabled',))

    def closed(self):
        g = self.w.graph
        ns = g.nodes
        def inn(x): return any(x is n for n in ns)
        def ina(x): return any(x is a for a in g.attackers)
        for n in ns:
            if not all(inn(c) for c in n.children) or not all(inn(p) for p in n.parents):
                return False
            if not all(ina(a) for a in n.compromised_by):
                return False
        for a in g.attackers:
            if not all(inn(n) for n in a.entry_points) or not all(inn(n) for n in a.reached_attack_steps):
                return False
        if not all(inn(v) for v in g._id_to_node.values()) or not all(inn(v) for v in g._full_name_to_node.values()):
            return False
        if not all(ina(v) for v in g._id_to_attacker.values()):
            return False
        return len({id(n) for n in ns}) == len(ns) and len({id(a) for a in g.attackers}) == len(g.attackers)


def gen_history(impl, rng, weights, n_nodes=(2, 6), n_links=(0, 8), n_atts=(0, 3), n_steps=(0, 10), fresh=False, bad_ids=0.0):
    g = Gen(impl, rng, weights, fresh_labels=fresh)
    g.bad_ids = bad_ids
    old = signal.signal(signal.SIGALRM, _alarm)
    signal.alarm(20)
    try:
        g.build(rng.randint(*n_nodes), rng.randint(*n_links), rng.randint(*n_atts))
        for _ in range(rng.randint(*n_steps)):
            g.step()
    except Timeout:
        pass
    finally:
        signal.alarm(0)
        signal.signal(signal.SIGALRM, old)
    return g.ops
