"""C05 — the instance model under histories of edits: correspondence between maltoolbox.model.Model and
Model.v / ModelOps.v, with an abstract reference evaluated on the implementation's live objects for verdicts."""
from __future__ import annotations
import copy, itertools, json, random, time
from . import common as C
from . import langgen as LG
from . import modelgen as MG

IMPORTS = 'Prelude Model ModelOps'
CASE_TYPE = 'list mop * jv'
CHECK_DEF = 'Definition check (c : list mop * jv) : bool := model_check c.'
EXTRA = {'GUARDS': 'count_true (fun c : list mop * jv => mguards_met (fst c)) cases'}


def fixed_language():
    F, S, CO = LG.F, LG.S, LG.CO
    return LG.lang(
        [LG.asset('Aa', None, [LG.step('t', 'or'), LG.step('df', 'defense', ttc=LG.TTC_ENABLED)]),
         LG.asset('Bb', 'Aa', [LG.step('dg', 'defense', ttc=LG.TTC_DISABLED)])],
        [LG.assoc('Pp', 'Aa', 'pa', 'Aa', 'pb'), LG.assoc('Qq', 'Aa', 'qa', 'Bb', 'qb', (0, 1), (0, None))])


class MWorld:
    """Mirror of ModelOps.mstate on the implementation side."""
    CACHE: dict = {}
    def __init__(self, impl, L):
        from maltoolbox.model import Model
        self.L = L
        # one language graph / class factory per language object and implementation import: generated classes are never freed
        # (abc registries), and tens of thousands of histories run over a handful of languages
        key = (id(impl), id(L))
        if key not in MWorld.CACHE:
            MWorld.CACHE[key] = (L,) + tuple(MG.make_lang(impl, L))
        _, self.lg, self.lcf = MWorld.CACHE[key]
        self.m = Model('hist', self.lcf)
        self.assets, self.assocs, self.atts = [], [], []
        self.assoc_meta = []      # (cls, lf, rf) per association handle

    def ah(self, o):
        return next((i for i, x in enumerate(self.assets) if x is o), -1)
    def ch(self, o):
        return next((i for i, x in enumerate(self.assocs) if x is o), -1)
    def th(self, o):
        return next((i for i, x in enumerate(self.atts) if x is o), -1)

    def apply(self, op):
        from maltoolbox.model import AttackerAttachment
        from maltoolbox.exceptions import DuplicateModelAssociationError, ModelAssociationException
        k = op[0]
        ret = None
        try:
            if k == 'new_asset':
                _, t, name, defs, extras, _full = op
                a = getattr(self.lcf.ns, t)(name=name) if name is not None else getattr(self.lcf.ns, t)()
                for d, v in defs:
                    setattr(a, d, v)
                if extras:
                    a.extras = copy.deepcopy(extras)
                self.assets.append(a)
            elif k == 'add_asset':
                self.m.add_asset(self.assets[op[1]], asset_id=op[2], allow_duplicate_names=op[3])
            elif k == 'remove_asset':
                try:
                    self.m.remove_asset(self.assets[op[1]])
                except AttributeError:
                    # an asset that was never added and has no name: the debug message itself fails; the call is
                    # rejected and nothing changes, which is all C05 asks of an invalid call
                    if any(self.assets[op[1]] is x for x in self.m.assets):
                        raise
                    return (2, None)
            elif k == 'new_assoc':
                _, cls, lf, l, rf, r = op
                o = getattr(self.lcf.ns, cls)()
                setattr(o, lf, [self.assets[i] for i in l])
                setattr(o, rf, [self.assets[i] for i in r])
                self.assocs.append(o)
                self.assoc_meta.append((cls, lf, rf))
            elif k == 'add_assoc':
                self.m.add_association(self.assocs[op[1]])
            elif k == 'remove_assoc':
                self.m.remove_association(self.assocs[op[1]])
            elif k == 'remove_from_assoc':
                try:
                    self.m.remove_asset_from_association(self.assets[op[1]], self.assocs[op[2]])
                except AttributeError:
                    if any(self.assets[op[1]] is x for x in self.m.assets):
                        raise
                    return (2, None)
            elif k == 'set_assoc_extras':
                self.assocs[op[1]].extras = copy.deepcopy(op[2])
            elif k == 'new_att':
                self.atts.append(AttackerAttachment(name=op[1]) if op[1] is not None else AttackerAttachment())
            elif k == 'add_att':
                self.m.add_attacker(self.atts[op[1]], attacker_id=op[2])
            elif k == 'remove_att':
                self.m.remove_attacker(self.atts[op[1]])
            elif k == 'add_entry':
                self.atts[op[1]].add_entry_point(self.assets[op[2]], op[3])
            elif k == 'remove_entry':
                self.atts[op[1]].remove_entry_point(self.assets[op[2]], op[3])
            elif k == 'q_by_id':
                r = self.m.get_asset_by_id(op[1])
                ret = [None if r is None else self.ah(r)]
            elif k == 'q_by_name':
                r = self.m.get_asset_by_name(op[1])
                ret = [None if r is None else self.ah(r)]
            elif k == 'q_associated':
                ret = [self.ah(x) for x in self.m.get_associated_assets_by_field_name(self.assets[op[1]], op[2])]
            else:
                raise AssertionError(k)
            return (0, ret)
        except RecursionError:
            return (9, None)            # no API call may die of a recursion error; reported as a violation by run_history
        except DuplicateModelAssociationError:
            return (3, None)
        except ModelAssociationException:
            return (4, None)
        except ValueError:
            return (1, None)
        except LookupError:
            return (2, None)

    # canonical observation (ModelOps.obs_mstate)
    def obs(self):
        m = self.m
        def oid(a):
            v = getattr(a, 'id', None)
            return None if v is None else int(v)
        def oname(a):
            v = getattr(a, 'name', None) if hasattr(a, 'name') else None
            return None if v is None else str(v)
        def defs(a):
            return [[d, int(round(float(getattr(a, d)) * 1024))] for d in MG.defenses_of(self.lg, str(a.type))]
        def extras(x, default):
            if not hasattr(x, 'extras'):
                return default
            e = x.extras
            return e.as_dict() if hasattr(e, 'as_dict') else e
        def refs(a):
            return [self.ch(c) for c in (list(a.associations) if hasattr(a, 'associations') else [])]
        oa = [[oid(a), oname(a), str(a.type), defs(a), extras(a, {}), refs(a)] for a in self.assets]
        oc = []
        for c, (cls, lf, rf) in zip(self.assocs, self.assoc_meta):
            oc.append([c.__class__.__name__, lf, [self.ah(x) for x in getattr(c, lf)], rf, [self.ah(x) for x in getattr(c, rf)],
                       extras(c, None)])
        ot = [[t.id, t.name, [[self.ah(a), list(st)] for a, st in t.entry_points]] for t in self.atts]
        return [[self.ah(a) for a in m.assets], [self.ch(c) for c in m.associations], [self.th(t) for t in m.attackers],
                sorted(int(i) for i in m.asset_ids), sorted((str(n) for n in m.asset_names), key=C.skey),
                [[k, [self.ch(c) for c in v]] for k, v in sorted(m._type_to_association.items(), key=lambda kv: C.skey(kv[0]))],
                m.next_id, oa, oc, ot]

    # ---- the property, evaluated on the live objects ----
    def violations(self):
        m = self.m
        out = []
        ids = [int(a.id) for a in m.assets]
        names = [str(a.name) for a in m.assets]
        if len(set(ids)) != len(ids): out.append('two live assets share an id')
        if len(set(names)) != len(names): out.append('two live assets share a name')
        if sorted(int(i) for i in m.asset_ids) != sorted(ids): out.append('reserved asset ids differ from the ids of the live assets')
        if sorted(str(n) for n in m.asset_names) != sorted(names): out.append('reserved asset names differ from the names of the live assets')
        live = m.assets
        for a in live:
            for c in a.associations:
                if not any(c is x for x in m.associations): out.append('an asset lists an association that is not in the model')
        for c in m.associations:
            lf, rf = list(m.get_association_field_names(c))
            members = list(getattr(c, lf)) + list(getattr(c, rf))
            for x in members:
                if not any(x is a for a in live): out.append('an association lists an asset that is not in the model')
                elif not any(c is y for y in x.associations): out.append('an association lists an asset that does not list it')
            for a in live:
                if any(c is y for y in a.associations) and not any(a is x for x in members):
                    out.append('an asset lists an association that does not list it')
        for a in live:
            fields = {f for c in m.associations for f in m.get_association_field_names(c)}
            for f in fields:
                exp = set()
                for c in m.associations:
                    lf, rf = list(m.get_association_field_names(c))
                    if rf == f and any(a is x for x in getattr(c, lf)): exp |= {int(x.id) for x in getattr(c, rf)}
                    if lf == f and any(a is x for x in getattr(c, rf)): exp |= {int(x.id) for x in getattr(c, lf)}
                got = {int(x.id) for x in m.get_associated_assets_by_field_name(a, f)}
                if got != exp: out.append(f'neighbours through field {f} are not the assets linked through it')
        for t in m.attackers:
            seen = []
            for a, st in t.entry_points:
                if not any(a is x for x in live): out.append('an attacker has an entry point on an asset that is not in the model')
        return out


def c_op(op) -> str:
    k = op[0]
    nl = lambda l: C.clist([C.cnat(x) for x in l])
    if k == 'new_asset':
        defs = C.clist([f'({C.cstr(d)}, {C.cZ(int(round(v * 1024)))})' for d, v in op[5]])
        return f'MNewAsset {C.cstr(op[1])} {C.copt(op[2], C.cstr)} {defs} {C.cjv(op[4])}'
    if k == 'add_asset': return f'MAddAsset {op[1]} {C.copt(op[2], C.cZ)} {C.cbool(op[3])}'
    if k == 'remove_asset': return f'MRemoveAsset {op[1]}'
    if k == 'new_assoc': return f'MNewAssoc {C.cstr(op[1])} {C.cstr(op[2])} {nl(op[3])} {C.cstr(op[4])} {nl(op[5])}'
    if k == 'add_assoc': return f'MAddAssoc {op[1]}'
    if k == 'remove_assoc': return f'MRemoveAssoc {op[1]}'
    if k == 'remove_from_assoc': return f'MRemoveFromAssoc {op[1]} {op[2]}'
    if k == 'set_assoc_extras': return f'MSetAssocExtras {op[1]} {C.cjv(op[2])}'
    if k == 'new_att': return f'MNewAtt {C.copt(op[1], C.cstr)}'
    if k == 'add_att': return f'MAddAtt {op[1]} {C.copt(op[2], C.cZ)}'
    if k == 'remove_att': return f'MRemoveAtt {op[1]}'
    if k == 'add_entry': return f'MAddEntry {op[1]} {op[2]} {C.cstr(op[3])}'
    if k == 'remove_entry': return f'MRemoveEntry {op[1]} {op[2]} {C.cstr(op[3])}'
    if k == 'q_by_id': return f'MQById {C.cZ(op[1])}'
    if k == 'q_by_name': return f'MQByName {C.cstr(op[1])}'
    if k == 'q_associated': return f'MQAssociated {op[1]} {C.cstr(op[2])}'
    raise AssertionError(k)


def full_defs(w, t, given):
    """new_asset carries the value of every defense of the type (defaults filled in) for the model."""
    d = dict(given)
    out = []
    for name in MG.defenses_of(w.lg, t):
        a = w.lg.get_asset_by_name(t)
        step = next(s for s in a.attack_steps if s.name == name)
        default = 1.0 if (step.ttc and step.ttc.get('name') == 'Enabled') else 0.0
        out.append((name, d.get(name, default)))
    return out


def run_history(impl, L, ops):
    """Run ops; returns outs, obs, per-step property violations, and whether a raising op changed _to_dict()."""
    w = MWorld(impl, L)
    outs, viol = [], []
    for i, op in enumerate(ops):
        before = None
        try:
            before = json.dumps(w.m._to_dict(), sort_keys=True, default=str)
        except Exception:
            pass
        atts_before = list(w.m.attackers)
        dup_expected = None
        if op[0] == 'add_assoc':
            # the reference model refuses an association only when it is in the model already or when some pair
            # (asset of its left field, asset of its right field) is linked, in that orientation, by a live association of its type
            try:
                o = w.assocs[op[1]]
                cls, lf, rf = w.assoc_meta[op[1]]
                oid = lambda x: getattr(x, 'id', None)
                dup_expected = any(o is c for c in w.m.associations) or any(
                    type(c).__name__ == cls and any(oid(x) == oid(l) for x in getattr(c, lf)) and any(oid(y) == oid(r) for y in getattr(c, rf))
                    for c in w.m.associations for l in getattr(o, lf) for r in getattr(o, rf))
            except Exception:
                dup_expected = None
        oc, ret = w.apply(op)
        outs.append([oc, ret])
        if op[0] == 'add_assoc' and oc == 3 and dup_expected is False:
            viol.append((i, 'add_association refused as a duplicate an association that is not in the model and none of whose links exists'))
        if op[0] == 'remove_att':
            atts_after = list(w.m.attackers)
            gone = [x for x in atts_before if not any(x is y for y in atts_after)]
            t = w.atts[op[1]]
            same = lambda a, b: a.id == b.id and a.name == b.name and len(a.entry_points) == len(b.entry_points) and \
                all(x[0] is y[0] and list(x[1]) == list(y[1]) for x, y in zip(a.entry_points, b.entry_points))
            if oc == 0 and (len(gone) != 1 or not (gone[0] is t or same(gone[0], t))):
                viol.append((i, 'remove_attacker removed something other than the attacker it was given'))
            if oc != 0 and gone:
                viol.append((i, 'remove_attacker raised but removed an attacker'))
        if oc == 9:
            viol.append((i, f'{op[0]} raised RecursionError'))
            break
        if oc != 0 and before is not None:
            try:
                after = json.dumps(w.m._to_dict(), sort_keys=True, default=str)
                if after != before:
                    viol.append((i, f'{op[0]} raised but changed the observable state'))
            except Exception:
                pass
        if op[0] == 'add_asset' and oc == 0 and op[2] is not None and int(w.assets[op[1]].id) != op[2]:
            viol.append((i, 'an explicitly requested asset id was not honoured'))
        try:
            for v in w.violations():
                viol.append((i, v))
        except RecursionError:
            viol.append((i, 'a query of the model raised RecursionError'))
            break
    try:
        obs = w.obs()
    except RecursionError:
        obs = ['unobservable']
        viol.append((len(ops), 'observing the model raised RecursionError'))
    return outs, obs, viol, w


class Gen:
    def __init__(self, impl, L, rng):
        self.w = MWorld(impl, L)
        self.rng = rng
        self.ops = []
        self.types = [a['name'] for a in L['assets']]
        self.st = LG.Static(L)

    def do(self, op):
        self.ops.append(op)
        return self.w.apply(op)

    def live(self):
        return [self.w.ah(a) for a in self.w.m.assets]

    def step(self):
        rng, w = self.rng, self.w
        live = self.live()
        r = rng.random()
        if r < 0.22:
            t = rng.choice(self.types)
            name = rng.choice(['x', 'y', 'x:1', None, f'n{len(w.assets)}', f'n{len(w.assets)}'])
            if w.m.assets and rng.random() < 0.12:
                # exactly the name of a live asset, generated names (x:1, Aa:3) included
                name = str(rng.choice(w.m.assets).name)
            given = [(d, rng.choice([0.0, 1.0, 0.5])) for d in MG.defenses_of(w.lg, t) if rng.random() < 0.4]
            extras = rng.choice([{}, {}, {'k': 1}, {'flag': True, 'off': False, 'none': None, 'nest': {'b': [True, 'yes', 'no']}}])
            self.do(('new_asset', t, name, given, extras, full_defs(w, t, given)))
            h = len(w.assets) - 1
            aid = None if rng.random() < 0.6 else rng.choice([0, 1, 2, 5, -1, -3, 7] + [int(a.id) for a in w.m.assets][:2])
            self.do(('add_asset', h, aid, rng.random() < 0.85))
        elif r < 0.32 and w.assets:
            cands = live if rng.random() < 0.8 else list(range(len(w.assets)))
            if cands:
                self.do(('remove_asset', rng.choice(cands)))
        elif r < 0.34 and w.assets:
            dead = [i for i in range(len(w.assets)) if i not in live]
            if dead:
                self.do(('add_asset', rng.choice(dead), rng.choice([None, None, 3]), True))
        elif r < 0.52 and live:
            assoc = rng.choice(w.lg.associations)
            cname, cls = MG.assoc_class(w.lcf, assoc)
            lf, rf = assoc.left_field, assoc.right_field
            ls = [h for h in live if self.st.is_sub(str(w.assets[h].type), lf.asset.name)]
            rs = [h for h in live if self.st.is_sub(str(w.assets[h].type), rf.asset.name)]
            if ls and rs:
                kl = 1 if lf.maximum == 1 or rng.random() < 0.6 else min(len(ls), 2)
                kr = 1 if rf.maximum == 1 or rng.random() < 0.6 else min(len(rs), 2)
                l, rr = rng.sample(ls, kl), rng.sample(rs, kr)
                if rng.random() < 0.2 and l[0] in rs:
                    rr = [l[0]] + [x for x in rr if x != l[0]][:kr - 1]
                if rng.random() < 0.1:
                    # the same asset twice in one field: refused whatever else is in the model
                    if rng.random() < 0.5 and lf.maximum != 1:
                        l = [l[0], l[0]]
                    elif rf.maximum != 1:
                        rr = [rr[0], rr[0]]
                try:
                    self.do(('new_assoc', cname, lf.fieldname, l, rf.fieldname, rr))
                    self.do(('add_assoc', len(w.assocs) - 1))
                except Exception:
                    self.ops.pop()      # construction rejected by schema validation: not part of this history
        elif r < 0.58 and w.assocs:
            self.do(('remove_assoc', rng.randrange(len(w.assocs))))
        elif r < 0.64 and w.assocs and live:
            c = rng.randrange(len(w.assocs))
            co, (cls, lf, rf) = w.assocs[c], w.assoc_meta[c]
            members = [w.ah(x) for x in list(getattr(co, lf)) + list(getattr(co, rf))]
            h = rng.choice(members) if members and rng.random() < 0.8 else rng.choice(live)
            if h >= 0:
                self.do(('remove_from_assoc', h, c))
        elif r < 0.66 and w.m.associations:
            self.do(('set_assoc_extras', w.ch(rng.choice(w.m.associations)), rng.choice([{'k': 2}, {'p': {'q': [1, 2]}}, {'on': True, 'n': None, 'l': [False, 'true']}])))
        elif r < 0.72:
            self.do(('new_att', rng.choice([None, 'eve', ''])))
            self.do(('add_att', len(w.atts) - 1, rng.choice([None, None, 0, 4])))
        elif r < 0.75 and w.atts:
            self.do(('remove_att', rng.randrange(len(w.atts))))
        elif r < 0.85 and w.atts and live:
            self.do(('add_entry', rng.randrange(len(w.atts)), rng.choice(live), rng.choice(['t', 'u'])))
        elif r < 0.89 and w.atts and live:
            self.do(('remove_entry', rng.randrange(len(w.atts)), rng.choice(live), rng.choice(['t', 'u'])))
        elif r < 0.93:
            self.do(('q_by_id', rng.choice([0, 1, 2, 5, -1])))
        elif r < 0.96:
            self.do(('q_by_name', rng.choice(['x', 'y', 'x:1', 'n0'])))
        elif live:
            fields = sorted({c['leftField'] for c in self.w.L['associations']} | {c['rightField'] for c in self.w.L['associations']})
            if fields:
                self.do(('q_associated', rng.choice(live), rng.choice(fields)))


def exhaustive_histories(impl, L, depth):
    """All sequences of `depth` operations over a tiny universe after a fixed prelude (3 assets, 1 link, 1 attacker)."""
    w = MWorld(impl, L)
    prelude = [('new_asset', 'Aa', 'x', [], {}, full_defs(w, 'Aa', [])), ('add_asset', 0, None, True),
               ('new_asset', 'Bb', 'y', [], {}, full_defs(w, 'Bb', [])), ('add_asset', 1, 5, True),
               ('new_asset', 'Aa', 'x', [], {}, full_defs(w, 'Aa', [])),
               ('new_assoc', 'Pp', 'pa', [0], 'pb', [0, 1]), ('add_assoc', 0),
               ('new_att', 'eve'), ('add_att', 0, None), ('add_entry', 0, 0, 't')]
    alphabet = [('add_asset', 2, None, True), ('add_asset', 2, 0, True), ('add_asset', 2, 5, False), ('add_asset', 2, None, False),
                ('remove_asset', 0), ('remove_asset', 1), ('remove_asset', 2), ('remove_assoc', 0), ('remove_from_assoc', 0, 0),
                ('remove_from_assoc', 1, 0), ('add_assoc', 0), ('remove_att', 0), ('add_entry', 0, 1, 't'),
                ('remove_entry', 0, 0, 't'), ('add_asset', 0, None, True)]
    for seq in itertools.product(alphabet, repeat=depth):
        yield prelude + list(seq)
    # an asset that is a member of several associations, the earlier ones having further members on its side
    prelude2 = [('new_asset', 'Aa', 'a', [], {}, full_defs(w, 'Aa', [])), ('add_asset', 0, None, True),
                ('new_asset', 'Aa', 'a2', [], {}, full_defs(w, 'Aa', [])), ('add_asset', 1, None, True),
                ('new_asset', 'Bb', 'b', [], {}, full_defs(w, 'Bb', [])), ('add_asset', 2, None, True),
                ('new_asset', 'Bb', 'c', [], {}, full_defs(w, 'Bb', [])), ('add_asset', 3, None, True),
                ('new_assoc', 'Pp', 'pa', [0, 1], 'pb', [2]), ('add_assoc', 0),
                ('new_assoc', 'Pp', 'pa', [0], 'pb', [3]), ('add_assoc', 1),
                ('new_assoc', 'Pp', 'pa', [2], 'pb', [1, 0]), ('add_assoc', 2),
                ('new_att', 'eve'), ('add_att', 0, None), ('add_entry', 0, 0, 't'), ('add_entry', 0, 1, 't')]
    alphabet2 = [('remove_asset', 0), ('remove_asset', 1), ('remove_asset', 2), ('remove_asset', 3),
                 ('remove_from_assoc', 0, 0), ('remove_from_assoc', 0, 1), ('remove_from_assoc', 0, 2), ('remove_from_assoc', 1, 0),
                 ('remove_from_assoc', 2, 0), ('remove_assoc', 0), ('remove_assoc', 1), ('remove_assoc', 2),
                 ('add_assoc', 0), ('add_assoc', 1), ('q_associated', 0, 'pb'), ('q_associated', 2, 'pa'), ('q_associated', 3, 'pa')]
    for seq in itertools.product(alphabet2, repeat=min(depth, 2)):
        yield prelude2 + list(seq)


def guarded(impl, L, ops):
    """Keep the longest prefix whose operations meet the guards of ModelOps.mguard."""
    w = MWorld(impl, L)
    out = []
    for op in ops:
        k = op[0]
        live = [w.ah(a) for a in w.m.assets]
        ok = True
        if k == 'add_asset': ok = op[1] < len(w.assets) and op[1] not in live
        elif k == 'add_assoc':
            c = op[1]
            ok = c < len(w.assocs) and not any(w.assocs[c] is x for x in w.m.associations)
            if ok:
                cls, lf, rf = w.assoc_meta[c]
                ok = all(w.ah(x) in live for x in list(getattr(w.assocs[c], lf)) + list(getattr(w.assocs[c], rf)))
        elif k in ('add_entry', 'remove_entry'): ok = op[2] in live
        elif k == 'q_associated': ok = op[1] in live
        elif k == 'new_assoc': ok = all(x in live for x in op[3] + op[5])
        if not ok:
            break
        try:
            w.apply(op)
        except Exception:
            break
        out.append(op)
    return out


def check(pid: str, tier: str, seed: int):
    t0 = time.time()
    rng = random.Random(seed * 49979687 + 5)
    violations, cases, metas = [], [], []
    opcount, streams = {}, {}
    with C.Scratch():
        impl = C.import_impl()
        L0 = fixed_language()
        hist = []
        seen = set()
        for ops in exhaustive_histories(impl, L0, 2 if tier == 'quick' else 3):
            g = guarded(impl, L0, ops)
            key = json.dumps(g, default=str)
            if key not in seen:
                seen.add(key)
                hist.append(('exhaustive', L0, g))
        lgen = LG.LangGen(rng, dup_assoc_names=0.2)
        langs = [L0, L0] + [lgen.gen() for _ in range(6 if tier == 'quick' else 40)]
        for i in range(300 if tier == 'quick' else 5000):
            L = langs[i % len(langs)]
            g = Gen(impl, L, rng)
            for _ in range(rng.randint(3, 16)):
                try:
                    g.step()
                except Exception as e:
                    break
            hist.append(('random', L, g.ops))
        for stream, L, ops in hist:
            outs, obs, viol, w = run_history(impl, L, ops)
            cases.append('(' + C.clist([c_op(o) for o in ops]) + ',\n  ' + C.cjv([outs, obs]) + ')')
            metas.append({'stream': stream, 'ops': ops, 'outs': outs, 'obs': obs, 'prop_viol': viol, 'lang': L})
            streams[stream] = streams.get(stream, 0) + 1
            for o in ops:
                opcount[o[0]] = opcount.get(o[0], 0) + 1
        bad, counters, errors = C.run_cases(pid, IMPORTS, CASE_TYPE, CHECK_DEF, cases, EXTRA)
    if errors:
        violations.append({'message': 'the correspondence could not be evaluated', 'cause': 'coq-error',
                           'correspondence': 'corr_C05_obs_mrun', 'errors': errors[:3]})
    propbad = [m for m in metas if m['prop_viol']]
    if propbad:
        m = min(propbad, key=lambda x: len(x['ops']))
        violations.append({'message': m['prop_viol'][0][1], 'cause': m['prop_viol'][0][1], 'failing_input_found': True,
                           'ops': m['ops'], 'observed': m['prop_viol'][:8], 'outs': m['outs'], 'lang_assets': [a['name'] for a in m['lang']['assets']],
                           'cases_violating': len(propbad)})
    elif bad:
        m = metas[bad[0]]
        model_obs = C.coq_eval(IMPORTS, 'obs_mrun ' + C.clist([c_op(o) for o in m['ops']]))
        violations.append({'message': 'implementation and model disagree; no input found on which the property itself fails',
                           'cause': 'model-mismatch', 'correspondence': 'corr_C05_obs_mrun (ModelOps.obs_mrun)',
                           'ops': m['ops'], 'impl_outs': m['outs'], 'impl_obs': m['obs'], 'model_obs': model_obs[:6000],
                           'mismatching_cases': len(bad)})
    distinct = {json.dumps([m['outs'], m['obs']], sort_keys=True, default=str) for m in metas
                if len(m['obs'][0]) > 0 and any(o[0] in ('remove_asset', 'remove_assoc', 'remove_from_assoc') for o in m['ops'])}
    lens = [len(m['ops']) for m in metas]
    cov = {'evaluations': len(cases), 'distinct_nontrivial': len(distinct),
           'rule': 'all sequences of 2 (quick) / 3 (thorough) operations over 15 operations (valid and invalid arguments) after a fixed '
                   'prelude on a 2-type language with a self-typed association + seeded random guarded histories over that language and '
                   'random languages; non-trivial = the history removes something and leaves a live asset; distinct by (outcomes, final observation)',
           'samples': [metas[len(metas) // 2]['ops']] if metas else [], 'streams': streams, 'op_histogram': opcount,
           'premises_met': counters.get('GUARDS', 0), 'error_outcomes': sum(1 for m in metas for o in m['outs'] if o[0] != 0),
           'history_length': {'min': min(lens, default=0), 'max': max(lens, default=0)}, 'mismatches': len(bad), 'exhaustive': False}
    return {'violations': violations, 'coverage': cov,
            'trusted': ['schema-object equality (as_dict) coincides with identity on generated histories (distinct ids)'],
            'assumptions': ['operations use the API as intended (ModelOps.mguard): an asset is added when it is not in the model, '
                            'association members and entry-point assets are assets of the model',
                            'constructions rejected by python_jsonschema_objects validation are not part of C05 histories (C06)',
                            'theorems are about the Gallina model; the model is tied to the code by this run only']}


def replay(pid, path):
    print(json.dumps(json.load(open(path)), indent=1, default=str)[:8000])
    return 0
