#!/bin/bash
# usage: seed_eval_wt.sh <property> <worktree> <letter a> <letter b> — like seed_eval.sh for the two changes _seed/a and _seed/b of a
# worktree, but everything (tests, demos, check through VERIF_REPO) runs on that worktree, so properties can be done side by side
P=$1; WT=$2; LA=$3; LB=$4; RES=/tmp/eval7_out; mkdir -p $RES
for pair in "a $LA" "b $LB"; do
  set -- $pair; x=$1; y=$2; N=${P}_$y; OUT=/verif/seeded/$N; mkdir -p $OUT
  cp $WT/_seed/$x/patch.diff $OUT/patch.diff; cp $WT/_seed/$x/demo.py $OUT/demo.py; cp $WT/_seed/$x/notes.md $OUT/notes.md 2>/dev/null
  cd $WT || exit 2
  git checkout -q -- . ; rm -rf tmp
  SCR=$(mktemp -d)
  ( cd $SCR && MAL_REPO=$WT PYTHONPATH=$WT timeout 300 /venv/bin/python $OUT/demo.py > $OUT/demo_clean.txt 2>&1 ); DC=$?
  git apply $OUT/patch.diff || { echo "$N patch does not apply" >> $RES/$P.txt; continue; }
  TS=""
  for t in 1 2 3 4; do TS=$(PYTHONPATH=$WT timeout 900 /venv/bin/python -m pytest -q -p no:cacheprovider 2>&1 | tail -1); case "$TS" in *"60 passed"*) break;; esac; done
  ( cd $SCR && MAL_REPO=$WT PYTHONPATH=$WT timeout 300 /venv/bin/python $OUT/demo.py > $OUT/demo_patched.txt 2>&1 ); DP=$?
  ( cd /verif && VERIF_REPO=$WT timeout 3000 ./check $P --tier quick > $OUT/check_quick.txt 2>&1 ); CK=$?
  git checkout -q -- . ; rm -rf $SCR tmp
  echo "$N property=$P tests='$TS' demo_clean=$DC demo_patched=$DP check_exit=$CK $(grep -c '^VIOLATION' $OUT/check_quick.txt) $(grep '^VIOLATION' $OUT/check_quick.txt | head -2 | tr '\n' ' ')" >> $RES/$P.txt
done
