"""Seeded, type-directed generation of well-formed MAL language specifications (the dict format of
langspec.json), of instance models over them, and their printing as Gallina terms (coq/theories/Lang.v)."""
from __future__ import annotations
import random
from . import common as C

# ----------------------------------------------------------------------------- spec dict constructors
def F(n): return {'type': 'field', 'name': n}
def S(n): return {'type': 'attackStep', 'name': n}
def CO(l, r): return {'type': 'collect', 'lhs': l, 'rhs': r}
def U(l, r): return {'type': 'union', 'lhs': l, 'rhs': r}
def I(l, r): return {'type': 'intersection', 'lhs': l, 'rhs': r}
def D(l, r): return {'type': 'difference', 'lhs': l, 'rhs': r}
def T(e): return {'type': 'transitive', 'stepExpression': e}
def ST(t, e): return {'type': 'subType', 'subType': t, 'stepExpression': e}
def V(n): return {'type': 'variable', 'name': n}

def step(name, typ='or', reaches=None, overrides=True, requires=None, ttc=None, tags=None, meta=None):
    return {'name': name, 'meta': meta or {}, 'type': typ, 'tags': tags or [], 'risk': None, 'ttc': ttc,
            'requires': {'overrides': True, 'stepExpressions': requires} if requires else None,
            'reaches': {'overrides': overrides, 'stepExpressions': reaches} if reaches is not None else None}

def asset(name, sup=None, steps=(), variables=(), abstract=False):
    return {'name': name, 'meta': {}, 'category': 'Cat', 'isAbstract': abstract, 'superAsset': sup,
            'variables': [{'name': n, 'stepExpression': e} for n, e in variables], 'attackSteps': list(steps)}

def assoc(name, la, lf, ra, rf, lm=(0, None), rm=(0, None)):
    return {'name': name, 'meta': {}, 'leftAsset': la, 'leftField': lf,
            'leftMultiplicity': {'min': lm[0], 'max': lm[1]},
            'rightAsset': ra, 'rightField': rf, 'rightMultiplicity': {'min': rm[0], 'max': rm[1]}}

def lang(assets, assocs):
    return {'formatVersion': '1.0.0', 'defines': {'id': 'org.verif.gen', 'version': '0.0.1'},
            'categories': [{'name': 'Cat', 'meta': {}}], 'assets': assets, 'associations': assocs}

TTC_ENABLED = {'type': 'function', 'name': 'Enabled', 'arguments': []}
TTC_DISABLED = {'type': 'function', 'name': 'Disabled', 'arguments': []}
TTC_EXP = {'type': 'function', 'name': 'Exponential', 'arguments': [0.5]}
TTC_SUM = {'type': 'addition', 'lhs': {'type': 'function', 'name': 'Exponential', 'arguments': [0.25]},
           'rhs': {'type': 'number', 'value': 2.0}}

# ----------------------------------------------------------------------------- static view of a spec
class Static:
    """Inheritance, fields and steps as the language graph sees them (used to grow well-typed expressions)."""
    def __init__(self, L):
        self.L = L
        self.assets = {a['name']: a for a in L['assets']}
        self.order = [a['name'] for a in L['assets']]

    def chain(self, t):
        out = []
        while t is not None and t in self.assets and t not in out:
            out.append(t)
            t = self.assets[t]['superAsset']
        return out

    def is_sub(self, t, u):
        return u in self.chain(t)

    def subs(self, t):
        return [x for x in self.order if self.is_sub(x, t)]

    def lca(self, t, u):
        for x in self.chain(t):
            if self.is_sub(u, x):
                return x
        return None

    def fields(self, t):
        """field name -> target type, in the order the language graph finds them (associations in spec order
        per ancestor chain root-first is not needed: names are unique per type in generated languages)."""
        out = {}
        for a in self.L['associations']:
            if self.is_sub(t, a['leftAsset']) and a['rightField'] not in out:
                out[a['rightField']] = a['rightAsset']
            if self.is_sub(t, a['rightAsset']) and a['leftField'] not in out:
                out[a['leftField']] = a['leftAsset']
        return out

    def steps(self, t):
        names = []
        for x in reversed(self.chain(t)):
            for s in self.assets[x]['attackSteps']:
                if s['name'] not in names:
                    names.append(s['name'])
        return names

    def variables(self, t):
        out = {}
        for x in reversed(self.chain(t)):
            for v in self.assets[x]['variables']:
                out[v['name']] = (x, v['stepExpression'])
        return out


# ----------------------------------------------------------------------------- generator
ASSET_NAMES = ['Aa', 'Bb', 'Cc', 'Dd', 'Ee']
ASSOC_NAMES = ['Pp', 'Qq', 'Rr', 'Ss']
FIELD_NAMES = ['fa', 'fb', 'fc', 'fd', 'fe', 'ff', 'fg', 'fh']
STEP_NAMES = ['sa', 'sb', 'sc', 'sd']

class LangGen:
    def __init__(self, rng: random.Random, n_assets=(1, 4), n_assocs=(1, 3), max_depth=3,
                 dup_assoc_names=0.0, with_vars=True, with_existence=True, with_defenses=True, reuse_fields=0.0):
        self.rng = rng
        self.cfg = dict(n_assets=n_assets, n_assocs=n_assocs, max_depth=max_depth, dup=dup_assoc_names,
                        vars=with_vars, exist=with_existence, defs=with_defenses, reuse=reuse_fields)

    def gen(self):
        """A language without two associations that share their name and both asset types (their generated classes
        collapse — the C06 known finding; C06 has its own stream for them)."""
        while True:
            L = self._gen()
            sigs = [(a['name'], a['leftAsset'], a['rightAsset']) for a in L['associations']]
            if len(set(sigs)) == len(sigs):
                return L

    def _gen(self):
        rng, cfg = self.rng, self.cfg
        n = rng.randint(*cfg['n_assets'])
        names = ASSET_NAMES[:n]
        supers = {}
        for i, a in enumerate(names):
            supers[a] = rng.choice(names[:i]) if i > 0 and rng.random() < 0.65 else None
        assets = [asset(a, supers[a], abstract=(rng.random() < 0.1)) for a in names]
        # associations with globally unique field names
        m = rng.randint(*cfg['n_assocs'])
        reuse = rng.random() < cfg['reuse']
        for attempt in range(20):
            fields = list(FIELD_NAMES)
            rng.shuffle(fields)
            assocs = []
            for j in range(m):
                nm = ASSOC_NAMES[j] if rng.random() >= cfg['dup'] or j == 0 else ASSOC_NAMES[0]
                la, ra = rng.choice(names), rng.choice(names)
                mult = lambda: rng.choice([(0, None), (0, None), (0, 1), (1, 1), (1, None), (0, 2)])
                if reuse:
                    lf, rf = rng.choice(FIELD_NAMES[:3]), rng.choice(FIELD_NAMES[:3])
                else:
                    lf, rf = fields.pop(), fields.pop()
                assocs.append(assoc(nm, la, lf, ra, rf, mult(), mult()))
            L = lang(assets, assocs)
            st = Static(L)
            if not reuse or self.fields_unambiguous(st, names, assocs):
                break
            reuse = attempt < 15
        # step names per asset: a few own, some redefinitions of inherited ones
        for a in names:
            inherited = st.steps(supers[a]) if supers[a] else []
            own = []
            for s in STEP_NAMES:
                if s in inherited:
                    if rng.random() < 0.55:
                        own.append(s)
                elif rng.random() < 0.45:
                    own.append(s)
            if not own and not inherited:
                own = [rng.choice(STEP_NAMES)]
            st.assets[a]['attackSteps'] = [step(s, 'or') for s in own]      # placeholders so that names exist
        # defenses and existence steps are separate names so that types never change along a chain
        for a in names:
            if cfg['defs'] and rng.random() < 0.5 and not supers[a]:
                st.assets[a]['attackSteps'].append(step('df', 'defense', ttc=rng.choice([TTC_ENABLED, TTC_DISABLED, None])))
            if cfg['defs'] and rng.random() < 0.3 and supers[a] and 'dg' not in st.steps(supers[a]):
                st.assets[a]['attackSteps'].append(step('dg', 'defense', ttc=rng.choice([TTC_ENABLED, TTC_DISABLED, None])))
        # variables (declared on roots or anywhere, no shadowing along a chain; may use earlier variables)
        if cfg['vars']:
            for a in names:
                if rng.random() < 0.4:
                    # the same name may be declared by types that are not on one inheritance chain (no shadowing along a chain)
                    vn = 'vx' if rng.random() < 0.5 and 'vx' not in st.variables(a) else 'v' + a.lower()
                    e = self.expr(st, a, rng.randint(1, 2), allow_var=True, final=False)
                    if e is not None:
                        st.assets[a]['variables'].append({'name': vn, 'stepExpression': e[0]})
        # now fill in the real steps
        for a in names:
            inherited = st.steps(supers[a]) if supers[a] else []
            new_steps = []
            for s in st.assets[a]['attackSteps']:
                nm = s['name']
                if s['type'] == 'defense':
                    exprs = self.exprs(st, a, rng.randint(0, 2))
                    new_steps.append(step(nm, 'defense', reaches=exprs if exprs else None, ttc=s['ttc'],
                                          tags=rng.choice([[], [], ['hidden']])))
                    continue
                if nm in inherited:
                    typ = self.inherited_type(st, supers[a], nm)
                    kind = rng.choice(['none', 'over', 'ext', 'ext'])
                else:
                    typ = rng.choice(['or', 'or', 'and'])
                    kind = rng.choice(['none', 'over', 'over', 'ext'])
                exprs = self.exprs(st, a, rng.randint(1, 3)) if kind != 'none' else None
                if kind != 'none' and not exprs:
                    exprs = [] if rng.random() < 0.3 else None
                ttc = rng.choice([None, None, TTC_EXP, TTC_SUM])
                meta = rng.choice([{}, {}, {'mitre': 'T1' + str(rng.randrange(100, 999))}, {'user': 'info text'}])
                new_steps.append(step(nm, typ, reaches=exprs, overrides=(kind == 'over'), ttc=ttc,
                                      tags=rng.choice([[], [], ['tg'], ['tg', 'th'], ['th', 'tg'], ['zz', 'mm', 'aa']]), meta=meta))
            if cfg['exist'] and rng.random() < 0.35:
                e = self.expr(st, a, rng.randint(1, 2), allow_var=True, final=False)
                if e is not None and 'ex' not in inherited:
                    exprs = self.exprs(st, a, rng.randint(0, 1))
                    new_steps.append(step('ex', rng.choice(['exist', 'notExist']), requires=[e[0]],
                                          reaches=exprs if exprs else None))
            st.assets[a]['attackSteps'] = new_steps
        return L

    @staticmethod
    def fields_unambiguous(st, names, assocs):
        """Every asset type (through itself or an ancestor) sees each field name at most once."""
        for t in names:
            seen = []
            for a in assocs:
                if st.is_sub(t, a['leftAsset']): seen.append(a['rightField'])
                if st.is_sub(t, a['rightAsset']): seen.append(a['leftField'])
            if len(seen) != len(set(seen)):
                return False
        return True

    def inherited_type(self, st, t, nm):
        for x in st.chain(t):
            for s in st.assets[x]['attackSteps']:
                if s['name'] == nm:
                    return s['type']
        return 'or'

    def exprs(self, st, a, k):
        out = []
        for _ in range(k):
            e = self.expr(st, a, self.rng.randint(0, self.cfg['max_depth']), allow_var=True, final=True)
            if e is not None:
                out.append(e[0])
        return out

    def expr(self, st, t, depth, allow_var, final):
        """Grow an expression from static type t. Returns (expr, result type) or None.
        With final=True the expression ends in an attack step that the result type defines or inherits."""
        body = self.nav(st, t, depth, allow_var)
        if body is None:
            if not final:
                return None
            steps = st.steps(t)
            return (S(self.rng.choice(steps)), t) if steps else None
        e, u = body
        if not final:
            return e, u
        steps = st.steps(u)
        if not steps:
            return None
        return CO(e, S(self.rng.choice(steps))), u

    def nav(self, st, t, depth, allow_var):
        """A navigation expression (no final step) from type t of roughly the given depth; None if depth == 0."""
        rng = self.rng
        if depth <= 0:
            return None
        fields = st.fields(t)
        choices = []
        if fields and depth <= 1:
            choices += ['field'] * 4 + ['trans'] * 1
        elif fields:
            choices += ['field'] * 2 + ['collect'] * 3 + ['setop'] * 3 + ['trans'] * 2 + ['sub'] * 2
        if allow_var and st.variables(t):
            choices += ['var'] * 2
        if not choices:
            return None
        k = rng.choice(choices)
        if k == 'field':
            f = rng.choice(sorted(fields))
            return F(f), fields[f]
        if k == 'var':
            vs = st.variables(t)
            v = rng.choice(sorted(vs))
            owner, e = vs[v]
            u = self.type_of(st, owner, e)
            return (V(v), u) if u else None
        if k == 'collect':
            l = self.nav(st, t, depth - 1, allow_var)
            if l is None:
                return None
            r = self.nav(st, l[1], depth - 1, allow_var)
            if r is None:
                return l
            return CO(l[0], r[0]), r[1]
        if k == 'setop':
            l = self.nav(st, t, depth - 1, allow_var)
            r = self.nav(st, t, depth - 1, allow_var)
            if l is None or r is None:
                return l or r
            lca = st.lca(l[1], r[1])
            if lca is None:
                return l
            op = rng.choice(['u', 'u', 'i', 'd'])
            if op == 'u':
                return U(l[0], r[0]), lca
            if op == 'i':
                return I(l[0], r[0]), l[1]
            return D(l[0], r[0]), l[1]
        if k == 'trans':
            # f* needs a field that can be followed again from its own target type
            cands = [f for f in sorted(fields) if f in st.fields(fields[f]) and st.fields(fields[f])[f] == fields[f]]
            if not cands:
                f = rng.choice(sorted(fields))
                return F(f), fields[f]
            f = rng.choice(cands)
            return T(F(f)), fields[f]
        if k == 'sub':
            inner = self.nav(st, t, depth - 1, allow_var)
            if inner is None:
                return None
            subs = [x for x in st.subs(inner[1]) if x != inner[1]]
            if not subs:
                return inner
            sub = rng.choice(subs)
            return ST(sub, inner[0]), sub
        return None

    def type_of(self, st, t, e):
        k = e['type']
        if k == 'field':
            return st.fields(t).get(e['name'])
        if k == 'attackStep':
            return t
        if k == 'collect':
            u = self.type_of(st, t, e['lhs'])
            return self.type_of(st, u, e['rhs']) if u else None
        if k == 'union':
            a, b = self.type_of(st, t, e['lhs']), self.type_of(st, t, e['rhs'])
            return st.lca(a, b) if a and b else None
        if k in ('intersection', 'difference'):
            return self.type_of(st, t, e['lhs'])
        if k == 'transitive':
            return self.type_of(st, t, e['stepExpression'])
        if k == 'subType':
            return e['subType']
        if k == 'variable':
            vs = st.variables(t)
            if e['name'] not in vs:
                return None
            owner, ve = vs[e['name']]
            return self.type_of(st, owner, ve)
        return None


# ----------------------------------------------------------------------------- Gallina printing
def c_sexpr(e) -> str:
    k = e['type']
    if k == 'attackStep': return f'(SStep {C.cstr(e["name"])})'
    if k == 'field': return f'(SField {C.cstr(e["name"])})'
    if k == 'variable': return f'(SVar {C.cstr(e["name"])})'
    if k == 'collect': return f'(SCollect {c_sexpr(e["lhs"])} {c_sexpr(e["rhs"])})'
    if k == 'union': return f'(SUnion {c_sexpr(e["lhs"])} {c_sexpr(e["rhs"])})'
    if k == 'intersection': return f'(SInter {c_sexpr(e["lhs"])} {c_sexpr(e["rhs"])})'
    if k == 'difference': return f'(SDiff {c_sexpr(e["lhs"])} {c_sexpr(e["rhs"])})'
    if k == 'transitive': return f'(STrans {c_sexpr(e["stepExpression"])})'
    if k == 'subType': return f'(SSub {C.cstr(e["subType"])} {c_sexpr(e["stepExpression"])})'
    raise ValueError(k)

def c_step(s) -> str:
    req = 'None' if not s['requires'] else '(Some ' + C.clist([c_sexpr(e) for e in s['requires']['stepExpressions']]) + ')'
    rea = 'None' if s['reaches'] is None else \
        f'(Some ({C.cbool(s["reaches"]["overrides"])}, {C.clist([c_sexpr(e) for e in s["reaches"]["stepExpressions"]])}))'
    return (f'(mkStep {C.cstr(s["name"])} {C.cstr(s["type"])} {C.cjv(s["ttc"])} '
            f'{C.clist([C.cstr(t) for t in s["tags"]])} {C.cjv(s["meta"])} {req} {rea})')

def c_lang(L) -> str:
    assets = C.clist([
        f'(mkAsset {C.cstr(a["name"])} {C.copt(a["superAsset"], C.cstr)} {C.cbool(a["isAbstract"])} '
        + C.clist([f'({C.cstr(v["name"])}, {c_sexpr(v["stepExpression"])})' for v in a['variables']]) + ' '
        + C.clist([c_step(s) for s in a['attackSteps']]) + ')'
        for a in L['assets']])
    assocs = C.clist([
        f'(mkAssoc {C.cstr(a["name"])} {C.cstr(a["leftAsset"])} {C.cstr(a["leftField"])} '
        f'{C.cZ(a["leftMultiplicity"]["min"])} {C.copt(a["leftMultiplicity"]["max"], C.cZ)} '
        f'{C.cstr(a["rightAsset"])} {C.cstr(a["rightField"])} '
        f'{C.cZ(a["rightMultiplicity"]["min"])} {C.copt(a["rightMultiplicity"]["max"], C.cZ)})'
        for a in L['associations']])
    return f'(mkLang {assets} {assocs})'

# JSON view of expressions / resolved steps, mirrored by jv_of_sexpr / jv_of_step in coq/theories/LangObs.v
def j_sexpr(e):
    k = e['type']
    if k in ('attackStep', 'field', 'variable'): return [k, e['name']]
    if k in ('collect', 'union', 'intersection', 'difference'): return [k, j_sexpr(e['lhs']), j_sexpr(e['rhs'])]
    if k == 'transitive': return [k, j_sexpr(e['stepExpression'])]
    if k == 'subType': return [k, e['subType'], j_sexpr(e['stepExpression'])]
    raise ValueError(k)

def j_step(s):
    return [s['name'], s['type'], s['ttc'], list(s['tags']), s['meta'],
            None if not s['requires'] else [j_sexpr(e) for e in s['requires']['stepExpressions']],
            None if s['reaches'] is None else [bool(s['reaches']['overrides']),
                                               [j_sexpr(e) for e in s['reaches']['stepExpressions']]]]


def parallel_field_langs():
    """Languages in which two associations on unrelated asset types use the same pair of field names (field names only
    have to be unique per asset type)."""
    out = []
    for same_name in (False, True):
        for sub in (False, True):
            assets = [asset('Aa', None, [step('t', 'or', reaches=[CO(F('itm'), S('u'))])]), asset('Bb', None, [step('u', 'or')]),
                      asset('Cc', None, [step('t', 'or', reaches=[CO(F('itm'), S('u'))])]), asset('Dd', None, [step('u', 'or')])]
            if sub:
                assets.append(asset('Ee', 'Bb', [step('w', 'or')]))
            out.append(lang(assets, [assoc('Pp', 'Aa', 'own', 'Bb', 'itm', (0, None), (0, None)),
                                     assoc('Pp' if same_name else 'Qq', 'Cc', 'own', 'Dd', 'itm', (0, 1), (0, None))]))
    return out
