"""Shared machinery of the correspondence checks: paths, the Python -> Gallina printer, the sharded
coqc runner, scratch working directories, evidence files and the verdict lines."""
from __future__ import annotations
import json, os, re, shutil, subprocess, sys, tempfile, time, hashlib
from concurrent.futures import ThreadPoolExecutor

VERIF = os.path.dirname(os.path.dirname(os.path.abspath(__file__)))
REPO = os.environ.get('VERIF_REPO', '/repo')
COQ = os.path.join(VERIF, 'coq')
BUILD = os.path.join(VERIF, 'build')
EVID = os.path.join(VERIF, 'evidence')
REPLAYS = os.path.join(VERIF, 'replays')
NCPU = int(os.environ.get('VERIF_JOBS', '16'))

FORBIDDEN = re.compile(r'\b(Admitted|admit|Axiom|Parameter|Conjecture|bypass_check)\b|Unset Guard|Admit Obligations|-type-in-type')

# --------------------------------------------------------------------------- Gallina printer

def cstr(s: str) -> str:
    """A Coq string literal (bytes of the UTF-8 encoding)."""
    return '"' + s.replace('"', '""') + '"'

def cZ(z: int) -> str:
    return f'({z})%Z' if z < 0 else f'{z}%Z'

def cnat(n: int) -> str:
    assert n >= 0
    return str(n)

def cbool(b) -> str:
    return 'true' if b else 'false'

def clist(items) -> str:
    return '[' + '; '.join(items) + ']'

def copt(x, f) -> str:
    return 'None' if x is None else f'(Some {f(x)})'

def cflt(x: float) -> str:
    y = x * 1024
    if y == int(y) and abs(y) < 2 ** 60:
        return f'(JFlt {cZ(int(y))})'
    return f'(JStr {cstr("float:" + repr(x))})'

def cjv(v) -> str:
    """Python JSON-like value -> term of type Prelude.jv."""
    if v is None:
        return 'JNull'
    if isinstance(v, bool):
        return f'(JBool {cbool(v)})'
    if isinstance(v, int):
        return f'(JInt {cZ(v)})'
    if isinstance(v, float):
        return cflt(v)
    if isinstance(v, str):
        return f'(JStr {cstr(v)})'
    if isinstance(v, (list, tuple)):
        return f'(JList {clist([cjv(x) for x in v])})'
    if isinstance(v, dict):
        return '(JDict ' + clist([f'({cstr(str(k))}, {cjv(x)})' for k, x in v.items()]) + ')'
    raise TypeError(f'cannot print {type(v)} as jv')

def skey(s: str):
    """Ordering key that agrees with Coq's String.leb (byte order)."""
    return s.encode('utf-8')

# --------------------------------------------------------------------------- Coq build and runner

def coq_build(log=None) -> tuple[bool, str]:
    """Incremental full .vo build of the development. Returns (ok, output)."""
    mk = os.path.join(COQ, 'Makefile')
    cmds = []
    if not os.path.exists(mk) or os.path.getmtime(mk) < os.path.getmtime(os.path.join(COQ, '_CoqProject')):
        cmds.append(['coq_makefile', '-f', '_CoqProject', '-o', 'Makefile'])
    cmds.append(['timeout', '3000', 'make', f'-j{NCPU}'])
    out = ''
    for c in cmds:
        p = subprocess.run(c, cwd=COQ, capture_output=True, text=True)
        out += p.stdout + p.stderr
        if p.returncode != 0:
            return False, out
    return True, out

def forbidden_scan() -> list[str]:
    hits = []
    for root, _, files in os.walk(COQ):
        for f in files:
            if f.endswith('.v'):
                p = os.path.join(root, f)
                for i, line in enumerate(open(p, encoding='utf-8'), 1):
                    code = re.sub(r'\(\*.*?\*\)', '', line)
                    if FORBIDDEN.search(code):
                        hits.append(f'{p}:{i}: {line.strip()}')
    return hits

def property_assumptions(pid: str) -> tuple[int, list[str], str]:
    """Recompile Properties/<pid>.v and read its Print Assumptions output.
    Returns (number of theorems, list of axiom lines, raw output)."""
    src = os.path.join(COQ, 'Properties', f'{pid}.v')
    p = subprocess.run(['timeout', '600', 'coqc', '-Q', 'theories', 'MT', '-Q', 'Properties', 'MTP', src],
                       cwd=COQ, capture_output=True, text=True)
    out = p.stdout + p.stderr
    if p.returncode != 0:
        return 0, ['COMPILE-ERROR'], out
    text = open(src, encoding='utf-8').read()
    text = re.sub(r'\(\*.*?\*\)', '', text, flags=re.S)
    thms = re.findall(r'^\s*(?:Theorem|Corollary)\s+(\w+)', text, flags=re.M)
    prints = re.findall(r'Print Assumptions\s+(\w+)', text)
    missing = [t for t in thms if t not in prints]
    axioms = []
    closed = out.count('Closed under the global context')
    if missing:
        axioms.append('NO-PRINT-ASSUMPTIONS-FOR ' + ','.join(missing))
    # anything listed under "Axioms:" is reported
    for block in re.findall(r'Axioms:\n((?:.+\n?)+?)(?=\n|\Z)', out):
        for line in block.splitlines():
            m = re.match(r'^(\S+)\s*:', line)
            if m:
                axioms.append(m.group(1))
    if closed + len(re.findall(r'Axioms:', out)) < len(prints):
        axioms.append('UNPARSED-ASSUMPTIONS-OUTPUT')
    return len(thms), sorted(set(axioms)), out

ALLOWED_AXIOMS: set[str] = set()   # target: none

CASE_HEADER = 'From MT Require Import {imports}.\nOpen Scope string_scope.\nOpen Scope list_scope.\n'

def run_cases(pid: str, imports: str, case_type: str, check_def: str, cases: list[str],
              extra_evals: dict[str, str] | None = None, shard: int = 150, timeout: int = 900):
    """Write the cases in shards, evaluate `check` on each with vm_compute inside Coq.
    Returns (bad global indices, {name: summed extra counter}, errors)."""
    d = os.path.join(BUILD, 'cases', pid)
    shutil.rmtree(d, ignore_errors=True)
    os.makedirs(d)
    shards = [cases[i:i + shard] for i in range(0, len(cases), shard)]
    files = []
    for k, sh in enumerate(shards):
        fn = os.path.join(d, f'cases_{k}.v')
        with open(fn, 'w', encoding='utf-8') as f:
            f.write(CASE_HEADER.format(imports=imports))
            f.write(f'Definition cases : list ({case_type}) := [\n')
            f.write(';\n'.join(sh))
            f.write('\n].\n')
            f.write(check_def + '\n')
            f.write('Eval vm_compute in ("BAD", bad_indices check cases 0).\n')
            for name, expr in (extra_evals or {}).items():
                f.write(f'Eval vm_compute in ("{name}", {expr}).\n')
        files.append(fn)

    def one(fn):
        p = subprocess.run(['timeout', str(timeout), 'coqc', '-Q', os.path.join(COQ, 'theories'), 'MT', fn],
                           cwd=d, capture_output=True, text=True)
        return fn, p.returncode, p.stdout, p.stderr

    bad, counters, errors = [], {}, []
    with ThreadPoolExecutor(max_workers=NCPU) as ex:
        for k, (fn, rc, out, err) in enumerate(ex.map(one, files)):
            if rc != 0:
                errors.append(f'{fn}: coqc exit {rc}: {err[-2000:]}')
                continue
            flat = ' '.join(out.split())
            m = re.search(r'= \("BAD", \[(.*?)\]\)', flat)
            if not m:
                errors.append(f'{fn}: cannot parse output: {flat[:500]}')
                continue
            for tok in m.group(1).split(';'):
                tok = tok.strip()
                if tok:
                    bad.append(k * shard + int(tok))
            for name in (extra_evals or {}):
                m2 = re.search(r'= \("%s", (\d+)\)' % re.escape(name), flat)
                if m2:
                    counters[name] = counters.get(name, 0) + int(m2.group(1))
                else:
                    errors.append(f'{fn}: no value for {name}')
    return sorted(bad), counters, errors

def coq_eval(imports: str, expr: str, timeout: int = 300) -> str:
    """Evaluate one expression with vm_compute and return Coq's printed answer (diagnostics / replays)."""
    d = os.path.join(BUILD, 'eval')
    os.makedirs(d, exist_ok=True)
    fn = os.path.join(d, f'e_{os.getpid()}_{int(time.time()*1000) % 10**9}.v')
    with open(fn, 'w', encoding='utf-8') as f:
        f.write(CASE_HEADER.format(imports=imports))
        f.write(f'Eval vm_compute in ({expr}).\n')
    p = subprocess.run(['timeout', str(timeout), 'coqc', '-Q', os.path.join(COQ, 'theories'), 'MT', fn],
                       cwd=d, capture_output=True, text=True)
    for ext in ('.v', '.vo', '.vok', '.vos', '.glob'):
        try:
            os.remove(fn[:-2] + ext)
        except OSError:
            pass
    try:
        os.remove(os.path.join(d, '.' + os.path.basename(fn)[:-2] + '.aux'))
    except OSError:
        pass
    return (p.stdout + p.stderr).strip()

# --------------------------------------------------------------------------- scratch cwd for the implementation

class Scratch:
    """maltoolbox creates ./tmp/log.txt at import; every driver runs in a throw-away cwd."""
    def __enter__(self):
        self.old = os.getcwd()
        self.dir = tempfile.mkdtemp(prefix='verif_scratch_', dir=os.environ.get('VERIF_SCRATCH_BASE'))
        os.chdir(self.dir)
        return self.dir
    def __exit__(self, *a):
        os.chdir(self.old)
        shutil.rmtree(self.dir, ignore_errors=True)

def import_impl():
    """Import maltoolbox from REPO's working tree (never an installed copy)."""
    if REPO not in sys.path:
        sys.path.insert(0, REPO)
    for m in list(sys.modules):
        if m == 'maltoolbox' or m.startswith('maltoolbox.'):
            del sys.modules[m]
    import logging
    import maltoolbox  # noqa
    assert os.path.abspath(maltoolbox.__file__).startswith(os.path.abspath(REPO)), maltoolbox.__file__
    logging.disable(logging.CRITICAL)
    return maltoolbox

# --------------------------------------------------------------------------- evidence / verdict

def write_evidence(pid: str, tier: str, seed: int, coverage: dict, wall: float, violations: int,
                   assumptions: list[str]):
    os.makedirs(EVID, exist_ok=True)
    ev = {'property_id': pid, 'tier': tier, 'seed': seed, 'level': 'proof', 'coverage': coverage,
          'assumptions': assumptions, 'wall_s': round(wall, 2), 'violations': violations}
    with open(os.path.join(EVID, f'{pid}.json'), 'w') as f:
        json.dump(ev, f, indent=1, default=str)

def write_replay(pid: str, seed: int, tag: str, payload: dict) -> str:
    os.makedirs(REPLAYS, exist_ok=True)
    h = hashlib.sha1(json.dumps(payload, sort_keys=True, default=str).encode()).hexdigest()[:8]
    fn = os.path.join(REPLAYS, f'{pid}-{seed}-{tag}-{h}.json')
    with open(fn, 'w') as f:
        json.dump(payload, f, indent=1, default=str)
    return fn

def load_known_findings() -> list[dict]:
    fn = os.path.join(VERIF, 'known_findings.jsonl')
    out = []
    if os.path.exists(fn):
        for line in open(fn):
            line = line.strip()
            if line and not line.startswith('#'):
                out.append(json.loads(line))
    return out


# --------------------------------------------------------------------------- time limits for implementation calls
class ImplTimeout(Exception):
    """An implementation call did not return within its time limit."""


import contextlib, signal as _signal

@contextlib.contextmanager
def time_limit(seconds: int):
    """SIGALRM-based limit for calls into the implementation (it can loop on some inputs)."""
    def _raise(signum, frame):
        raise ImplTimeout(f'no result within {seconds} s')
    old = _signal.signal(_signal.SIGALRM, _raise)
    _signal.alarm(seconds)
    try:
        yield
    finally:
        _signal.alarm(0)
        _signal.signal(_signal.SIGALRM, old)
