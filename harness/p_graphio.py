"""C10 — saving and loading an attack graph: real files in {json, yml} x {model given, absent}; the document written by
the implementation is compared with GraphIO.gencode of the graph's content and read back with GraphIO.gdecode; the
reloaded graph is compared with the original on the implementation side (verdict)."""
from __future__ import annotations
import json, os, random, time
from . import common as C
from . import langgen as LG
from . import modelgen as MG

IMPORTS = 'Prelude Codec ModelIO GraphIO'
CASE_TYPE = 'gcontent * list (Z * string) * jv'
CHECK_DEF = 'Definition check (c : gcontent * list (Z * string) * jv) : bool := gio_check c.'


def dedupe(l):
    return list(dict.fromkeys(l))


def content_of(g):
    nodes = []
    for n in g.nodes:
        nodes.append({'id': n.id, 'type': n.type, 'name': n.name, 'asset': str(n.asset.name) if n.asset is not None else None,
                      'ttc': n.ttc, 'children': dedupe(c.id for c in n.children), 'parents': dedupe(p.id for p in n.parents),
                      'comp': [a.name for a in n.compromised_by],
                      'def': None if n.defense_status is None else float(n.defense_status), 'exist': n.existence_status,
                      'viable': bool(n.is_viable), 'necessary': bool(n.is_necessary), 'mitre': n.mitre_info,
                      'tags': [str(t) for t in n.tags], 'extras': dict(n.extras)})
    atts = [{'id': a.id, 'name': a.name, 'entry': dedupe(n.id for n in a.entry_points),
             'reached': dedupe(n.id for n in a.reached_attack_steps)} for a in g.attackers]
    names = [(n.id, n.full_name) for n in g.nodes]
    return nodes, atts, names


def c_content(nodes, atts, names) -> str:
    zl = lambda l: C.clist([C.cZ(x) for x in l])
    N = C.clist([
        '(mkGN {i} {t} {n} {a} {ttc} {ch} {pa} {co} {d} {e} {v} {nec} {m} {tags} {ex})'.format(
            i=C.cZ(x['id']), t=C.cstr(x['type']), n=C.cstr(x['name']), a=C.copt(x['asset'], C.cstr), ttc=C.cjv(x['ttc']),
            ch=zl(x['children']), pa=zl(x['parents']), co=C.clist([C.cstr(s) for s in x['comp']]),
            d=C.copt(None if x['def'] is None else int(round(x['def'] * 1024)), C.cZ), e=C.copt(x['exist'], C.cbool),
            v=C.cbool(x['viable']), nec=C.cbool(x['necessary']), m=C.copt(x['mitre'], C.cstr),
            tags=C.clist([C.cstr(s) for s in x['tags']]),
            ex=C.clist([f'({C.cstr(str(k))}, {C.cjv(v)})' for k, v in x['extras'].items()])) for x in nodes])
    A = C.clist([f'(mkGA {C.cZ(a["id"])} {C.cstr(a["name"])} {zl(a["entry"])} {zl(a["reached"])})' for a in atts])
    M = C.clist([f'({C.cZ(i)}, {C.cstr(n)})' for i, n in names])
    return f'mkGC {N} {A}, {M}'


LOAD_IMPORTS = 'Prelude Graph GraphOps Codec ModelIO GraphIO GraphLoad GraphLoadThm'
LOAD_TYPE = 'jv * bool * bool * gcontent * jv'
LOAD_CHECK = 'Definition check (c : jv * bool * bool * gcontent * jv) : bool := gload_check c.'


def graph_record_obs(g):
    """GraphOps.obs_graph of a loaded graph: handles are the positions in g.nodes / g.attackers."""
    nh = {id(n): i for i, n in enumerate(g.nodes)}
    ah = {id(a): i for i, a in enumerate(g.attackers)}
    return [[nh[id(n)] for n in g.nodes], [ah[id(a)] for a in g.attackers],
            [[k, nh.get(id(v), -1)] for k, v in sorted(g._id_to_node.items())],
            [[k, nh.get(id(v), -1)] for k, v in sorted(g._full_name_to_node.items(), key=lambda kv: C.skey(kv[0]))],
            [[k, ah.get(id(v), -1)] for k, v in sorted(g._id_to_attacker.items())],
            g.next_node_id, g.next_attacker_id]


def typed_view(g):
    """What C10 says must be preserved, with Python types."""
    nodes = {}
    for n in g.nodes:
        nodes[n.id] = (n.full_name, n.type, n.name, n.ttc, None if n.defense_status is None else float(n.defense_status),
                       n.existence_status, bool(n.is_viable), bool(n.is_necessary), n.mitre_info,
                       (type(n.tags).__name__, [str(t) for t in n.tags] if isinstance(n.tags, (list, tuple)) else repr(n.tags)),
                       dict(n.extras), sorted({c.id for c in n.children}), sorted({p.id for p in n.parents}),
                       sorted(a.name for a in n.compromised_by))
    atts = {a.id: (a.name, sorted({n.id for n in a.entry_points}), sorted({n.id for n in a.reached_attack_steps})) for a in g.attackers}
    return nodes, atts


def mutate_graph(impl, rng, g):
    from maltoolbox.attackgraph.analyzers import apriori
    if g.model is not None:
        # sometimes steps (entry points among them) are removed before the attackers are attached
        if rng.random() < 0.3 and g.nodes:
            named = [g.get_node_by_full_name(str(a.name) + ':' + st) for t in g.model.attackers for a, sts in t.entry_points for st in sts]
            cands = [n for n in named if n is not None] or list(g.nodes)
            for n in rng.sample(cands, min(len(cands), rng.randint(1, 2))):
                try:
                    if any(n is x for x in g.nodes):
                        g.remove_node(n)
                except Exception:
                    pass
        try:
            g.attach_attackers()
        except Exception:
            pass
    from maltoolbox.attackgraph import Attacker
    # attacker ids that are not 0..n-1 in list order: an attacker added under an id with a gap, an earlier one removed
    try:
        if g.nodes and rng.random() < 0.3:
            ids = [n.id for n in rng.sample(g.nodes, min(len(g.nodes), 2))]
            g.add_attacker(Attacker(name=rng.choice(['zed', 'eve']), entry_points=[], reached_attack_steps=[]),
                           attacker_id=g.next_attacker_id + rng.randint(1, 3), entry_points=ids[:1], reached_attack_steps=ids)
        if len(g.attackers) >= 2 and rng.random() < 0.4:
            g.remove_attacker(g.attackers[0])
    except Exception:
        pass
    # a step that every attacker has reached is removed
    try:
        if len(g.attackers) >= 2 and g.nodes and rng.random() < 0.3:
            n = rng.choice(g.nodes)
            for a in g.attackers:
                a.compromise(n)
            g.remove_node(n)
    except Exception:
        pass
    for _ in range(rng.randint(0, 6)):
        r = rng.random()
        try:
            if r < 0.3 and g.attackers and g.nodes:
                rng.choice(g.attackers).compromise(rng.choice(g.nodes))
            elif r < 0.4 and g.attackers:
                a = rng.choice(g.attackers)
                if a.reached_attack_steps:
                    a.undo_compromise(rng.choice(a.reached_attack_steps))
            elif r < 0.55:
                apriori.calculate_viability_and_necessity(g)
            elif r < 0.65:
                apriori.prune_unviable_and_unnecessary_nodes(g)
            elif r < 0.8 and g.nodes:
                rng.choice(g.nodes).extras.update(rng.choice([{'k': 1}, {'pos': {'x': 1, 'y': -2}}, {'s': 'txt'}, {'reward': 0}, {'seen': False},
                                                               {'cost': 0.0}, {'note': ''}, {'l': []}, {'d': {}}, {'n': None}]))
            elif r < 0.9 and g.nodes:
                rng.choice(g.nodes).tags = rng.choice([['x', 'y'], ['suppress'], []])
            elif g.nodes:
                g.remove_node(rng.choice(g.nodes))
        except Exception:
            pass


def add_model_attackers(impl, rng, m, lg):
    from maltoolbox.model import AttackerAttachment
    for k in range(rng.randint(0, 2)):
        t = AttackerAttachment(name=rng.choice(['eve', 'mallory', 'eve']))
        for _ in range(rng.randint(0, 3)):
            if m.assets:
                a = rng.choice(m.assets)
                steps = [s.name for s in lg.get_asset_by_name(str(a.type)).attack_steps]
                if steps and rng.random() < 0.15:
                    t.add_entry_point(a, 'nosuchstep')        # tolerated by attach_attackers: warned about and skipped
                if steps:
                    t.add_entry_point(a, rng.choice(steps))
        m.add_attacker(t)


def check(pid: str, tier: str, seed: int):
    t0 = time.time()
    rng = random.Random(seed * 67867967 + 10)
    violations, cases, metas, lcases = [], [], [], []
    configs = {}
    with C.Scratch() as scratch:
        impl = C.import_impl()
        from maltoolbox.attackgraph import AttackGraph, AttackGraphNode as impl_node
        gen = LG.LangGen(rng)
        n = 110 if tier == 'quick' else 1500
        for i in range(n):
            L = gen.gen()
            try:
                lg, lcf = MG.make_lang(impl, L)
            except Exception:
                continue
            m = MG.gen_model(impl, rng, L, lg, lcf, n_assets=(1, 5))
            add_model_attackers(impl, rng, m, lg)
            try:
                g = AttackGraph(lg, m)
            except Exception:
                continue
            mutate_graph(impl, rng, g)
            if rng.random() < 0.4:
                # the graph was saved before, then changed through its nodes and attackers: a save writes the graph as it is now
                try:
                    early = os.path.join(scratch, 'early.' + rng.choice(['json', 'yml']))
                    g.save_to_file(early)
                    os.remove(early)
                except Exception:
                    pass
                model, g.model = g.model, None       # no second attach_attackers
                try:
                    mutate_graph(impl, rng, g)
                finally:
                    g.model = model
            nodes, atts, names = content_of(g)
            ref = typed_view(g)
            pv = []
            for ext in ('json', 'yml'):
                fn = os.path.join(scratch, f'g{i}.{ext}')
                try:
                    g.save_to_file(fn)
                except Exception as e:
                    pv.append(f'saving to .{ext} raised {type(e).__name__}')
                    continue
                loader = json.load if ext == 'json' else __import__('yaml').safe_load
                doc = loader(open(fn, encoding='utf-8'))
                for with_model in (True, False):
                    key = f'{ext}/{"model" if with_model else "no-model"}'
                    configs[key] = configs.get(key, 0) + 1
                    try:
                        g2 = AttackGraph.load_from_file(fn, m if with_model else None)
                    except Exception as e:
                        pv.append(f'loading the saved .{ext} file ({key}) raised {type(e).__name__}')
                        lcases.append(f'({C.cjv(doc)}, {C.cbool(with_model)}, false, mkGC [] [], JNull)')
                        continue
                    ln, la, _ = content_of(g2)
                    lcases.append(f'({C.cjv(doc)}, {C.cbool(with_model)}, true, {c_content(ln, la, []).rsplit(", ", 1)[0]}, {C.cjv(graph_record_obs(g2))})')
                    got = typed_view(g2)
                    if not with_model:
                        # without the model nodes have no asset: the full name is id:name
                        exp_nodes = {k: ((f'{k}:{v[2]}',) + v[1:]) for k, v in ref[0].items()}
                    else:
                        exp_nodes = ref[0]
                    if got[0] != exp_nodes:
                        bad_ids = [k for k in exp_nodes if got[0].get(k) != exp_nodes[k]]
                        fields = ['full name', 'type', 'name', 'ttc', 'defense status', 'existence status', 'viability', 'necessity',
                                  'mitre info', 'tags', 'extras', 'children', 'parents', 'compromised_by']
                        what = 'node set'
                        if bad_ids and bad_ids[0] in got[0]:
                            a, b = got[0][bad_ids[0]], exp_nodes[bad_ids[0]]
                            what = next((fields[j] for j in range(len(fields)) if a[j] != b[j]), 'node')
                        pv.append(f'{what} differs after the round trip ({key})')
                    if got[1] != ref[1]:
                        pv.append(f'attackers / entry points / reached steps differ after the round trip ({key})')
                    if with_model:
                        for nd in g2.nodes:
                            if nd.asset is None or not any(nd.asset is a for a in m.assets) or str(nd.asset.name) + ':' + nd.name != nd.full_name:
                                pv.append('a loaded node is not bound to the model asset of the same name')
                                break
                    # the loaded graph is a graph one goes on working with: a step added to it gets an id of its own
                    # (after every observation above has been taken)
                    try:
                        extra = impl_node(type='or', name='zzadded', ttc=None)
                        g2.add_node(extra)
                        if sum(1 for nd in g2.nodes if nd.id == extra.id) != 1:
                            pv.append(f'a step added to the loaded graph received an id that another step has ({key})')
                    except Exception as e:
                        pv.append(f'add_node on the loaded graph raised {type(e).__name__} ({key})')
                cases.append(f'({c_content(nodes, atts, names)}, {C.cjv(doc)})')
                os.remove(fn)
            metas.append({'lang_assets': [a['name'] for a in L['assets']], 'nodes': nodes, 'atts': atts, 'prop_viol': pv})
        bad, counters, errors = C.run_cases(pid, IMPORTS, CASE_TYPE, CHECK_DEF, cases, None, shard=40)
        lbad, lcounters, lerrors = C.run_cases(pid + 'L', LOAD_IMPORTS, LOAD_TYPE, LOAD_CHECK, lcases, {'GLOADABLE': 'count_true gloadable_doc cases'}, shard=40)
        errors = errors + lerrors
    if errors:
        violations.append({'message': 'the correspondence could not be evaluated', 'cause': 'coq-error',
                           'correspondence': 'corr_C10_gencode_gdecode', 'errors': errors[:3]})
    propbad = [m for m in metas if m['prop_viol']]
    if propbad:
        m = min(propbad, key=lambda x: len(x['nodes']))
        violations.append({'message': m['prop_viol'][0], 'cause': m['prop_viol'][0], 'failing_input_found': True,
                           'nodes': m['nodes'], 'attackers': m['atts'], 'all_violations': sorted(set(m['prop_viol'])),
                           'cases_violating': len(propbad)})
    elif bad or lbad:
        violations.append({'message': 'implementation and model disagree; no input found on which the property itself fails',
                           'cause': 'model-mismatch', 'correspondence': 'corr_C10_gencode_gdecode (GraphIO.gencode / gdecode) / corr_C10_load (GraphLoad.gload)',
                           'case_index': (bad or lbad)[0], 'mismatching_cases': len(bad) + len(lbad), 'by_stream': {'document': len(bad), 'rebuild': len(lbad)}})
    nontriv = {json.dumps([m['nodes'], m['atts']], sort_keys=True, default=str) for m in metas
               if m['atts'] and any(n['children'] for n in m['nodes'])}
    cov = {'evaluations': len(cases) + len(lcases), 'distinct_nontrivial': len(nontriv), 'rebuild_cases': len(lcases), 'rebuild_cases_loadable': lcounters.get('GLOADABLE', 0),
           'rule': 'attack graphs generated from seeded random languages and models with model attackers attached, then compromise / undo, '
                   'analysis, pruning, node extras, tags, node removal (in 40% of the cases the graph is saved once in between and changed again); saved to .json and .yml, loaded with and without the model; '
                   'non-trivial = the graph has attackers and edges; distinct by content',
           'samples': [metas[0]['nodes'][:2]] if metas else [], 'configurations': configs, 'mismatches': len(bad) + len(lbad), 'exhaustive': False}
    return {'violations': violations, 'coverage': cov,
            'trusted': ['json / PyYAML turn a value tree into text and back; integer keys become strings in JSON (H-codec)',
                        'float(str(x)) = x on the defense values used (k/4; GraphIO.fstr_tab / fparse_tab)'],
            'assumptions': ['full names are unique (C02 / C05) — the serialized form keys nodes by full name',
                            'every document written for a graph of the run meets the premise of the rebuild theorem (GLoadable; counted: '
                            'rebuild_cases_loadable)',
                            'theorems are about the Gallina model; the model is tied to the code by this run only']}


def replay(pid, path):
    print(json.dumps(json.load(open(path)), indent=1, default=str)[:8000])
    return 0
