#!/bin/bash
# usage: seed_regress.sh <property> — run the quick check of one property against every seeded change stored for it,
# on a scratch worktree of /repo (VERIF_REPO), so that several properties can be done side by side; results in /tmp/reg_out
P=$1; WT=/tmp/reg_$P; OUT=/tmp/reg_out; mkdir -p $OUT
rm -f $OUT/$P.txt
git -C /repo worktree add --detach -f $WT HEAD >/dev/null 2>&1 || { echo "$P worktree failed" >> $OUT/$P.txt; exit 2; }
for d in /verif/seeded/${P}_*/; do
  n=$(basename $d)
  ( cd $WT && git apply $d/patch.diff 2>/dev/null ) || { echo "$n patch-does-not-apply" >> $OUT/$P.txt; continue; }
  ( cd /verif && VERIF_REPO=$WT timeout 3000 ./check $P --tier quick > $OUT/$n.check.txt 2>&1 ); rc=$?
  echo "$n exit=$rc lines=$(grep -c VIOLATION $OUT/$n.check.txt) $(grep VIOLATION $OUT/$n.check.txt | head -1)" >> $OUT/$P.txt
  ( cd $WT && git checkout -- . && rm -rf tmp )
done
git -C /repo worktree remove --force $WT
