#!/bin/bash
# usage: seed_some.sh <property> <seed name>... — the quick check of a property against some of its stored seeded changes, on a scratch worktree
P=$1; shift; WT=/tmp/some_$P; OUT=/tmp/some_out; mkdir -p $OUT
git -C /repo worktree add --detach -f $WT HEAD >/dev/null 2>&1 || exit 2
for n in "$@"; do
  ( cd $WT && git apply /verif/seeded/$n/patch.diff 2>/dev/null ) || { echo "$n patch-does-not-apply"; continue; }
  ( cd /verif && VERIF_REPO=$WT timeout 3000 ./check $P --tier quick > $OUT/$n.check.txt 2>&1 ); rc=$?
  cp $OUT/$n.check.txt /verif/seeded/$n/check_quick.txt
  echo "$n exit=$rc $(grep '^VIOLATION' $OUT/$n.check.txt | head -1)"
  ( cd $WT && git checkout -- . && rm -rf tmp )
done
git -C /repo worktree remove --force $WT
