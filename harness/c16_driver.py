"""Runs inside a fresh interpreter (PYTHONHASHSEED set by the caller): builds attack graphs by the requested route for a
batch of (language file, model file) pairs and prints one canonical JSON line per pair."""
import json, sys, os, logging
sys.path.insert(0, os.environ.get('VERIF_REPO', '/repo'))
import maltoolbox
logging.disable(logging.CRITICAL)


def canon(g):
    d = g._to_dict()
    # children / parents are dictionaries keyed by id: keep the order in which the implementation lists them
    steps = [[k, [[kk, (list(vv.items()) if isinstance(vv, dict) else vv)] for kk, vv in v.items()]] for k, v in d['attack_steps'].items()]
    atts = [[str(k), [[kk, (list(vv.items()) if isinstance(vv, dict) else vv)] for kk, vv in v.items()]] for k, v in d['attackers'].items()]
    return [steps, atts]


def main():
    route, batch_file = sys.argv[1], sys.argv[2]
    batch = json.load(open(batch_file))
    from maltoolbox.language import LanguageGraph, LanguageClassesFactory
    from maltoolbox.model import Model
    from maltoolbox.attackgraph import AttackGraph
    from maltoolbox.attackgraph.analyzers.apriori import calculate_viability_and_necessity
    from maltoolbox.wrappers import create_attack_graph
    import signal
    def _alarm(signum, frame):
        raise TimeoutError('no result within 20 s')
    signal.signal(signal.SIGALRM, _alarm)
    for lang_file, model_file in batch:
        signal.alarm(20)
        try:
            if route == 'wrapper':
                g = create_attack_graph(lang_file, model_file)
            else:
                lg = LanguageGraph.load_from_file(lang_file)
                lcf = LanguageClassesFactory(lg)
                m = Model.load_from_file(model_file, lcf)
                g = AttackGraph(lg, m)
                g.attach_attackers()
                calculate_viability_and_necessity(g)
            print(json.dumps(['ok', canon(g)], default=str))
        except BaseException as e:
            print(json.dumps(['error', type(e).__name__]))
        finally:
            signal.alarm(0)
        sys.stdout.flush()


if __name__ == '__main__':
    main()
