"""C01 / C02 — attack-graph generation: correspondence between AttackGraph(lang_graph, model) and Gen.generate,
with independent reference semantics (relational meaning of step expressions, root-down inheritance fold)
used to turn a disagreement into a verdict."""
from __future__ import annotations
import json, random, signal, time
from . import common as C
from . import langgen as LG
from . import modelgen as MG
from .p_lang import reference_steps

IMPORTS = 'Prelude Lang LangThm Eval Graph GraphOps Gen GenObs LangGraph LangGraphThm OverApprox'
CASE_TYPE = 'lang * imodel * jv'
CHECK_DEF = 'Definition check (c : lang * imodel * jv) : bool := gen_check c.'
EXTRA = {'PREMISES': 'count_true (fun c : lang * imodel * jv => gen_premise (fst (fst c)) (snd (fst c))) cases',
         'OVERAPPROX_PREMISES': 'count_true (fun c : lang * imodel * jv => let L := fst (fst c) in let M := snd (fst c) in '
                                'match lang_graph L with LOk g => wf_inherit L && fields_uniqueb (lg_created g) && no_shadowb L && '
                                'valid_viewb L (lg_created g) M && wt_lang L (lg_created g) | LErr _ => false end) cases'}


class Timeout(Exception):
    pass

def _alarm(s, f):
    raise Timeout()


# ----------------------------------------------------------------------------- reference semantics
class Ref:
    """MAL set semantics over the model view, from one start asset. Every result is a pair (lo, hi):
    lo uses closure+ for `*`, hi uses closure* — the property fixes the result only between the two."""
    def __init__(self, L, view):
        self.st = LG.Static(L)
        self.assets = {a[0]: a for a in view[0]}
        self.assocs = view[1]

    def nbrs(self, x, f):
        out = set()
        for c, lf, l, rf, r in self.assocs:
            if rf == f and x in l: out |= set(r)
            if lf == f and x in r: out |= set(l)
        return out

    def ev(self, e, x, depth=0):
        if depth > 40:
            raise RecursionError('variable nesting')
        k = e['type']
        if k == 'attackStep':
            return {x}, {x}
        if k == 'field':
            s = self.nbrs(x, e['name'])
            return set(s), set(s)
        if k == 'collect':
            llo, lhi = self.ev(e['lhs'], x, depth)
            lo, hi = set(), set()
            for y in lhi:
                try:
                    a, b = self.ev(e['rhs'], y, depth)
                except LookupError:
                    # only the start asset of a closure (in the upper bound alone) can lack a variable of the static
                    # type; nothing is reached through it
                    if y in llo:
                        raise
                    continue
                hi |= b
                if y in llo:
                    lo |= a
            return lo, hi
        if k in ('union', 'intersection', 'difference'):
            (a, b), (c, d) = self.ev(e['lhs'], x, depth), self.ev(e['rhs'], x, depth)
            if k == 'union': return a | c, b | d
            if k == 'intersection': return a & c, b & d
            return a - d, b - c
        if k == 'transitive':
            def close(i, start_included):
                seen, frontier = (set([x]) if start_included else set()), [x]
                while frontier:
                    nxt = []
                    for y in frontier:
                        for z in self.ev(e['stepExpression'], y, depth)[i]:
                            if z not in seen:
                                seen.add(z); nxt.append(z)
                    frontier = nxt
                return seen
            return close(0, False), close(1, True)
        if k == 'subType':
            lo, hi = self.ev(e['stepExpression'], x, depth)
            ok = lambda y: self.st.is_sub(self.assets[y][2], e['subType'])
            return {y for y in lo if ok(y)}, {y for y in hi if ok(y)}
        if k == 'variable':
            vs = self.st.variables(self.assets[x][2])
            if e['name'] not in vs:
                raise LookupError('variable')
            return self.ev(vs[e['name']][1], x, depth + 1)
        raise ValueError(k)

    @staticmethod
    def last_step(e):
        if e['type'] == 'attackStep': return e['name']
        if e['type'] == 'collect': return Ref.last_step(e['rhs'])
        return None


def expected_graph(L, view):
    """Expected nodes [(asset id, asset name, step dict)] and per node the (lo, hi) sets of (asset id, step) children."""
    ref = Ref(L, view)
    nodes = []
    for a in view[0]:
        for s in reference_steps(L, a[2]):
            nodes.append((a, s))
    edges = []
    for a, s in nodes:
        lo, hi = set(), set()
        if s[6] is not None:
            assets = {x['name']: x for x in L['assets']}
            for je in s[6][1]:
                e = unj(je)
                l, h = ref.ev(e, a[0])
                t = Ref.last_step(e)
                lo |= {(y, t) for y in l}
                hi |= {(y, t) for y in h}
        edges.append((lo, hi))
    return nodes, edges, ref

def unj(j):
    k = j[0]
    if k in ('attackStep', 'field', 'variable'): return {'type': k, 'name': j[1]}
    if k in ('collect', 'union', 'intersection', 'difference'): return {'type': k, 'lhs': unj(j[1]), 'rhs': unj(j[2])}
    if k == 'transitive': return {'type': k, 'stepExpression': unj(j[1])}
    if k == 'subType': return {'type': k, 'subType': j[1], 'stepExpression': unj(j[2])}
    raise ValueError(k)


def property_violations(pid, L, view, g) -> list[str]:
    """Evaluate C01 / C02 on the implementation's graph g against the reference semantics."""
    out = []
    try:
        nodes, edges, ref = expected_graph(L, view)
    except (RecursionError, LookupError) as e:
        return []       # outside the quantifier (ill-formed language)
    if isinstance(g, list):      # generation raised
        return [f'generation raised instead of producing the graph (error kind {g[1]})']
    impl_nodes = g.nodes
    key = lambda n: (str(n.asset.name), n.name)
    if pid == 'C02':
        exp_keys = [(a[1], s[0]) for a, s in nodes]
        got_keys = [key(n) for n in impl_nodes]
        if sorted(exp_keys) != sorted(got_keys):
            out.append('the nodes are not exactly one per (asset, resolved step)')
            return out
        names_unique = len({a[1] for a in view[0]}) == len(view[0])
        if not names_unique:
            # every model of the run is built through add_asset, which renames duplicates
            out.append('two assets of the model share a name, so the full names of their nodes are not unique')
        by = {}
        for n in impl_nodes:
            by.setdefault(key(n), []).append(n)
        for (a, s) in nodes:
            for n in by[(a[1], s[0])]:
                if n.type != s[1] or n.ttc != s[2] or list(n.tags) != s[3]:
                    out.append(f'node {n.full_name} does not carry the type / TTC / tags of its step')
                if n.mitre_info != (s[4].get('mitre') if isinstance(s[4], dict) else None):
                    out.append(f'node {n.full_name} does not carry the MITRE info of its step')
                if names_unique:
                    if s[1] == 'defense':
                        exp = dict(a[3]).get(s[0])
                        if n.defense_status is None or float(n.defense_status) != exp:
                            out.append(f'defense status of {n.full_name} is not the asset\'s value')
                    elif n.defense_status is not None:
                        out.append(f'{n.full_name} is not a defense but has a defense status')
                    if s[1] in ('exist', 'notExist'):
                        lo, hi = ref.ev(unj(s[5][0]), a[0])
                        if (lo and n.existence_status is not True) or (not hi and n.existence_status is not False):
                            out.append(f'existence status of {n.full_name} does not tell whether the requirement reaches an asset')
                    elif n.existence_status is not None:
                        out.append(f'{n.full_name} is not an existence step but has an existence status')
        ids = [n.id for n in impl_nodes]
        if len(set(ids)) != len(ids): out.append('node ids are not unique')
        if names_unique and len({n.full_name for n in impl_nodes}) != len(impl_nodes): out.append('full names are not unique')
        for n in impl_nodes:
            if g.get_node_by_id(n.id) is not n: out.append(f'lookup by id {n.id} does not return the node')
            if names_unique and g.get_node_by_full_name(n.full_name) is not n: out.append(f'lookup by full name {n.full_name} does not return the node')
    if pid == 'C09':
        inside = {id(n) for n in impl_nodes}
        for n in impl_nodes:
            for c in n.children:
                if id(c) not in inside: out.append('a child reference points to a node that is not in the graph')
                elif sum(1 for x in n.children if x is c) != sum(1 for p in c.parents if p is n):
                    out.append('child references are not mirrored one for one by parent references')
            for p in n.parents:
                if id(p) not in inside: out.append('a parent reference points to a node that is not in the graph')
                elif sum(1 for x in n.parents if x is p) != sum(1 for c in p.children if c is n):
                    out.append('parent references are not mirrored one for one by child references')
            if g.get_node_by_id(n.id) is not n: out.append('lookup by id does not return the node')
        if len(g._id_to_node) != len(impl_nodes): out.append('the id index holds entries for nodes that are not in the graph')
        if len({a[1] for a in view[0]}) == len(view[0]):
            if len(g._full_name_to_node) != len(impl_nodes): out.append('the full-name index holds entries for nodes that are not in the graph')
            for n in impl_nodes:
                if g.get_node_by_full_name(n.full_name) is not n: out.append('lookup by full name does not return the node')
    if pid == 'C01':
        if len({a[1] for a in view[0]}) != len(view[0]):
            return out
        idname = {a[0]: a[1] for a in view[0]}
        by = {key(n): n for n in impl_nodes}
        for (a, s), (lo, hi) in zip(nodes, edges):
            n = by.get((a[1], s[0]))
            if n is None:
                continue
            got = {key(c) for c in n.children}
            lo_k = {(idname[y], t) for y, t in lo}
            hi_k = {(idname[y], t) for y, t in hi}
            if not (lo_k <= got <= hi_k):
                out.append(f'children of {n.full_name} are not the assets its reaches expressions denote')
            for c in n.children:
                if sum(1 for x in n.children if x is c) != sum(1 for p in c.parents if p is n):
                    out.append(f'child links of {n.full_name} are not mirrored one for one by parent links')
            for p in n.parents:
                if sum(1 for x in n.parents if x is p) != sum(1 for c in p.children if c is n):
                    out.append(f'parent links of {n.full_name} are not mirrored one for one by child links')
    return out


# ----------------------------------------------------------------------------- driver
def observe(impl, lg, m, regen=None):
    """Run generation on the implementation; canonical observation (same shape as GenObs.obs_generate).
    With regen = a callable, the graph is first generated, then the model is edited by regen(m), then the graph is
    regenerated in place: it must be indistinguishable from a freshly generated one."""
    from maltoolbox.attackgraph import AttackGraph
    from maltoolbox.exceptions import AttackGraphStepExpressionError
    old = signal.signal(signal.SIGALRM, _alarm)
    signal.alarm(10)
    try:
        g = AttackGraph(lg, m)
        if regen is not None:
            try:
                g.attach_attackers()
            except Exception:
                pass
            regen(m, g)
            g.regenerate_graph()
    except Timeout:
        return ['error', 1], None
    except RecursionError:
        return ['error', 1], None
    except AttackGraphStepExpressionError:
        return ['error', 4], None
    except LookupError:
        return ['error', 2], None
    except (TypeError, AttributeError, KeyError):
        return ['error', 5], None
    finally:
        signal.alarm(0)
        signal.signal(signal.SIGALRM, old)
    idx = {id(n): i for i, n in enumerate(g.nodes)}
    def hs(l):
        return sorted(idx.get(id(x), -1) for x in l)        # with multiplicity: one entry per edge
    def dz(x):
        if x is None: return None
        y = float(x) * 1024
        return int(y) if y == int(y) else str(x)
    nodes = [[n.id, n.type, n.name, str(n.asset.name) if n.asset is not None else None, dz(n.defense_status),
              n.existence_status, n.mitre_info, n.ttc, [str(t) for t in n.tags], hs(n.children), hs(n.parents),
              bool(n.is_viable), bool(n.is_necessary)] for n in g.nodes]
    obs = ['ok', nodes, [[k, idx.get(id(v), -1)] for k, v in sorted(g._id_to_node.items())],
           [[k, idx.get(id(v), -1)] for k, v in sorted(g._full_name_to_node.items(), key=lambda kv: C.skey(kv[0]))],
           g.next_node_id]
    return obs, g


def ops_language():
    """One fixed language exercising every operator over two self-typed associations."""
    F, S, CO, U, I, D, T, ST, V = LG.F, LG.S, LG.CO, LG.U, LG.I, LG.D, LG.T, LG.ST, LG.V
    exprs = {
        'sfield': CO(F('pb'), S('t')), 'scoll': CO(CO(F('pb'), F('qb')), S('t')),
        'suni': CO(U(F('pb'), F('qb')), S('t')), 'sint': CO(I(F('pb'), F('qb')), S('t')),
        'sdif': CO(D(F('pb'), F('qb')), S('t')),
        'scu': CO(CO(F('pb'), U(F('pb'), F('qb'))), S('t')), 'sci': CO(CO(F('pb'), I(F('pb'), F('qb'))), S('t')),
        'scd': CO(CO(F('pb'), D(F('pb'), F('qb'))), S('t')),
        'str': CO(T(F('pb')), S('t')), 'sctr': CO(CO(F('qb'), T(F('pb'))), S('t')),
        'ssub': CO(ST('Bb', F('pb')), S('t')), 'svar': CO(V('vv'), S('t')),
        'sback': CO(CO(F('pa'), D(F('qa'), F('pa'))), S('t')),
    }
    steps = [LG.step('t', 'or')] + [LG.step(n, 'or', reaches=[e]) for n, e in exprs.items()]
    # one step reaching the same child through two expressions (parallel edges)
    steps.append(LG.step('sdup', 'or', reaches=[CO(F('pb'), S('t')), CO(F('pb'), S('t'))]))
    steps.append(LG.step('sdup2', 'and', reaches=[CO(F('pb'), S('t')), CO(U(F('pb'), F('qb')), S('t'))]))
    steps.append(LG.step('ex', 'exist', requires=[I(F('pb'), F('qb'))]))
    # requirements with a set operator below a collect: evaluated per asset reached, not over the pooled targets
    steps.append(LG.step('exi', 'exist', requires=[CO(F('pb'), I(F('pb'), F('qb')))]))
    steps.append(LG.step('nexd', 'notExist', requires=[CO(F('pb'), D(F('pb'), F('qb')))]))
    # requirements filtered by a type with sub-types two and three levels below it
    steps.append(LG.step('exs', 'exist', requires=[ST('Bb', F('pb'))]))
    steps.append(LG.step('nexs', 'notExist', requires=[CO(F('qb'), ST('Cc', F('pb')))]))
    steps.append(LG.step('df', 'defense', ttc=LG.TTC_ENABLED))
    return LG.lang([LG.asset('Aa', None, steps, variables=[('vv', CO(F('pb'), F('qb')))]), LG.asset('Bb', 'Aa'),
                    LG.asset('Cc', 'Bb'), LG.asset('Dd', 'Cc')],
                   [LG.assoc('Pp', 'Aa', 'pa', 'Aa', 'pb'), LG.assoc('Qq', 'Aa', 'qa', 'Aa', 'qb')])


def ops_models(impl, lg, lcf, rng, tier):
    """Models over ops_language: every model with <= 2 assets and <= 3 single links (exhaustive), then seeded dense
    models with 3-4 assets and 3-7 links (where joint and per-source evaluation of set operators differ)."""
    import itertools
    from maltoolbox.model import Model
    def build(types, links):
        m = Model('ops', lcf)
        objs = []
        for i, t in enumerate(types):
            a = getattr(lcf.ns, t)(name=f'{t.lower()}{i}')
            m.add_asset(a)
            objs.append(a)
        for cls, l, r in links:
            try:
                o = getattr(lcf.ns, cls)()
                lf, rf = ('pa', 'pb') if cls == 'Pp' else ('qa', 'qb')
                setattr(o, lf, [objs[l]]); setattr(o, rf, [objs[r]])
                m.add_association(o)
            except Exception:
                pass
        return m
    for n in (1, 2):
        possible = [(c, l, r) for c in ('Pp', 'Qq') for l in range(n) for r in range(n)]
        for types in itertools.product(['Aa', 'Bb', 'Cc', 'Dd'], repeat=n):
            for k in range(0, 4 if n == 1 else 3):
                for links in itertools.combinations(possible, k):
                    yield 'exhaustive', build(types, links)
    for _ in range(250 if tier == 'quick' else 2500):
        n = rng.randint(3, 4)
        possible = [(c, l, r) for c in ('Pp', 'Qq') for l in range(n) for r in range(n)]
        types = [rng.choice(['Aa', 'Bb', 'Cc', 'Dd']) for _ in range(n)]
        links = rng.sample(possible, rng.randint(3, 7))
        yield 'dense', build(types, links)


def ops_edit_cases(impl, L, lg, lcf):
    """Generate, edit the model, regenerate — over the operator language, with the edits on which a stale cache or a
    half-done removal shows: an asset taken out of a field that keeps other members, an asset removed that sits in both
    fields of a self-association, alone in one of them."""
    from maltoolbox.model import Model
    shapes = [([0], [1, 2], 'from', 2), ([1, 2], [0], 'from', 2), ([0], [1, 2], 'asset', 2), ([1, 2], [0], 'asset', 2),
              ([0, 1], [0], 'asset', 0), ([0], [0, 1], 'asset', 0), ([0, 1], [0, 2], 'asset', 0), ([0, 1], [0, 2], 'from', 0)]
    for types in (['Aa', 'Aa', 'Aa'], ['Aa', 'Bb', 'Cc'], ['Dd', 'Bb', 'Aa']):
        for cls in ('Pp', 'Qq'):
            for left, right, kind, victim in shapes:
                m = Model('edit', lcf)
                objs = []
                for i, t in enumerate(types):
                    objs.append(getattr(lcf.ns, t)(name=f'{t.lower()}{i}'))
                    m.add_asset(objs[-1])
                o = getattr(lcf.ns, cls)()
                lf, rf = ('pa', 'pb') if cls == 'Pp' else ('qa', 'qb')
                setattr(o, lf, [objs[i] for i in left]); setattr(o, rf, [objs[i] for i in right])
                m.add_association(o)
                # a second association through the other class, so that something is left to reach
                o2 = getattr(lcf.ns, 'Qq' if cls == 'Pp' else 'Pp')()
                lf2, rf2 = ('qa', 'qb') if cls == 'Pp' else ('pa', 'pb')
                setattr(o2, lf2, [objs[1]]); setattr(o2, rf2, [objs[(victim + 1) % 3]])
                m.add_association(o2)
                def regen(mm, g, o=o, x=objs[victim], kind=kind):
                    if kind == 'from':
                        mm.remove_asset_from_association(x, o)
                    else:
                        mm.remove_asset(x)
                yield {'L': L, 'lg': lg, 'm': m, 'stream': 'edited', 'regen': regen}


def make_cases(pid, impl, tier, seed):
    rng = random.Random(seed * 15485863 + (1 if pid == 'C01' else 2))
    n = {'quick': 300, 'thorough': 2000}[tier]
    if pid == 'C09':
        n = {'quick': 120, 'thorough': 1000}[tier]
    if pid in ('C01', 'C02'):
        L = ops_language()
        try:
            lg, lcf = MG.make_lang(impl, L)
        except Exception as e:
            yield {'L': L, 'error': repr(e)}
            return
        for stream, m in ops_models(impl, lg, lcf, rng, tier):
            if pid == 'C01' or stream == 'dense':
                yield {'L': L, 'lg': lg, 'm': m, 'stream': stream}
        yield from ops_edit_cases(impl, L, lg, lcf)
    if pid == 'C02':
        # names that collide with automatically renamed ones, in every order of three additions
        import itertools
        from maltoolbox.model import Model
        L = ops_language()
        lg, lcf = MG.make_lang(impl, L)
        # ... and assets added without a name (named <type>:<id> by the model) next to assets asking for those names
        for names in list(itertools.product(['x', 'x:1', 'x:0', 'x:1:2'], repeat=3)) + \
                list(itertools.product([None, 'Aa:0', 'Aa:1', 'Aa:2'], repeat=3)):
            m = Model('names', lcf)
            for nm in names:
                a = lcf.ns.Aa(name=nm) if nm is not None else lcf.ns.Aa()
                if rng.random() < 0.5:
                    a.df = rng.choice([0.0, 0.5])
                m.add_asset(a)
            yield {'L': L, 'lg': lg, 'm': m, 'stream': 'names'}
    gen = LG.LangGen(rng, reuse_fields=0.2)
    for i in range(n):
        L = gen.gen()
        try:
            lg, lcf = MG.make_lang(impl, L)
        except Exception as e:
            yield {'L': L, 'error': repr(e)}
            continue
        m = MG.gen_model(impl, rng, L, lg, lcf, tricky_names=(0.25 if pid == 'C02' else 0.0))
        if pid in ('C01', 'C02', 'C09') and (i % 3 == 0 or pid == 'C09'):
            yield {'L': L, 'lg': lg, 'm': m, 'stream': 'regenerated', 'regen': make_regen(impl, random.Random(rng.random()), lcf)}
        else:
            yield {'L': L, 'lg': lg, 'm': m, 'stream': 'random'}


def make_regen(impl, rng, lcf):
    """An edit of the model between generation and regeneration: remove assets, add assets, drop an association,
    add an attacker, compromise / remove something in the old graph."""
    def regen(m, g):
        from maltoolbox.model import AttackerAttachment
        from maltoolbox.attackgraph import Attacker
        # the old graph had attackers (attached from the model or added directly): nothing of them may survive
        try:
            if rng.random() < 0.5:
                g.add_attacker(Attacker(name='old', entry_points=[], reached_attack_steps=[]),
                               entry_points=[n.id for n in g.nodes[:1]], reached_attack_steps=[n.id for n in g.nodes[:2]])
            if rng.random() < 0.3 and m.attackers:
                g.attach_attackers()
        except Exception:
            pass
        for _ in range(rng.randint(1, 3)):
            r = rng.random()
            try:
                if r < 0.25 and m.assets:
                    m.remove_asset(rng.choice(m.assets))
                elif r < 0.4 and m.associations:
                    c = rng.choice(m.associations)
                    f = rng.choice(list(m.get_association_field_names(c)))
                    members = list(getattr(c, f))
                    if members:
                        m.remove_asset_from_association(rng.choice(members), c)
                elif r < 0.7:
                    types = [a.name for a in lcf.lang_graph.assets]
                    t = rng.choice(types)
                    m.add_asset(getattr(lcf.ns, t)(name=f'new{rng.randrange(3)}'))
                elif r < 0.85 and m.associations:
                    m.remove_association(rng.choice(m.associations))
                elif g.nodes:
                    g.remove_node(rng.choice(g.nodes))
            except Exception:
                pass
    return regen



def check(pid: str, tier: str, seed: int):
    t0 = time.time()
    violations, cases, metas = [], [], []
    ops_hist = {}
    with C.Scratch():
        impl = C.import_impl()
        for c in make_cases(pid, impl, tier, seed):
            if 'error' in c:
                metas.append({'L': c['L'], 'prop_viol': ['a generated well-formed language was rejected: ' + c['error']], 'skip': True})
                continue
            v = MG.view(c['m'])
            obs, g = observe(impl, c['lg'], c['m'], c.get('regen'))
            v = MG.view(c['m'])
            pv = property_violations('C02' if pid == 'C09' else pid, c['L'], v, g if g is not None else obs)
            if pid == 'C09' and g is not None:
                pv += property_violations('C09', c['L'], v, g)
            if c.get('regen') is not None and g is not None:
                if len(g._full_name_to_node) != len(g.nodes) or len(g._id_to_node) != len(g.nodes) or g.attackers or g._id_to_attacker \
                        or g.next_attacker_id != 0 or g.next_node_id != len(g.nodes):
                    pv.append('a regenerated graph differs from a freshly generated one (stale indexes, attackers or counters)')
            cases.append(f"({LG.c_lang(c['L'])}, {MG.c_imodel(v)}, {C.cjv(obs)})")
            metas.append({'L': c['L'], 'view': v, 'obs': obs, 'prop_viol': pv, 'stream': c['stream']})
            count_ops(c['L'], ops_hist)
        bad, counters, errors = C.run_cases(pid, IMPORTS, CASE_TYPE, CHECK_DEF, cases, EXTRA, shard=60)
    if errors:
        violations.append({'message': 'the correspondence could not be evaluated', 'cause': 'coq-error',
                           'correspondence': f'corr_{pid}_generate', 'errors': errors[:3]})
    real = [m for m in metas if not m.get('skip')]
    propbad = [m for m in metas if m['prop_viol']]
    if propbad:
        m = min(propbad, key=lambda x: len(json.dumps(x.get('view', ''), default=str)))
        violations.append({'message': m['prop_viol'][0], 'cause': m['prop_viol'][0], 'failing_input_found': True,
                           'lang': m['L'], 'model_view': m.get('view'), 'observed': m.get('obs'),
                           'all_violations': m['prop_viol'][:10], 'cases_violating': len(propbad)})
    elif bad:
        m = real[bad[0]]
        model_obs = C.coq_eval(IMPORTS, f"obs_generate {LG.c_lang(m['L'])} {MG.c_imodel(m['view'])}")
        violations.append({'message': 'implementation and model disagree; no input found on which the property itself fails',
                           'cause': 'model-mismatch', 'correspondence': f'corr_{pid}_generate (Gen.generate)',
                           'lang': m['L'], 'model_view': m['view'], 'impl_obs': m['obs'], 'model_obs': model_obs[:5000],
                           'mismatching_cases': len(bad)})
    nontriv = set()
    n_edges = 0
    for m in real:
        o = m['obs']
        if o[0] == 'ok' and any(n[9] for n in o[1]):
            nontriv.add(json.dumps(o, sort_keys=True, default=str))
            n_edges += sum(len(n[9]) for n in o[1])
    cov = {'evaluations': len(cases), 'distinct_nontrivial': len(nontriv),
           'rule': 'seeded type-directed random languages (1-4 asset types, inheritance, 1-3 associations incl. self-typed, every operator, '
                   'variables, defenses, existence steps) x random valid models built through the Model API (0-6 assets, shared / '
                   'many-to-many / self links' + (', names containing ":" and colliding names' if pid == 'C02' else '') +
                   '); non-trivial = the generated graph has at least one edge; distinct by the whole observation',
           'samples': [real[0]['view'], real[-1]['obs'][1][:3] if real and real[-1]['obs'][0] == 'ok' else None] if real else [],
           'operator_histogram': ops_hist, 'streams': {k: sum(1 for m in real if m.get('stream') == k) for k in ('exhaustive', 'dense', 'names', 'random', 'regenerated')}, 'premises_met': counters.get('PREMISES', 0),
           'error_outcomes': sum(1 for m in real if m['obs'][0] == 'error'), 'edges_total': n_edges,
           'mismatches': len(bad), 'exhaustive': False}
    return {'violations': violations, 'coverage': cov,
            'trusted': ['the model view (ids, names, types, defense values, back references, association members) is read from the '
                        'real Model object through public attributes'],
            'assumptions': ['asset names are unique (C05) for the name-keyed clauses',
                            'variables resolve uniformly over the assets an expression reaches (GenObs.gen_premise; follows from well-typedness, C15)',
                            'theorems are about the Gallina model; the model is tied to the code by this run only']}


def count_ops(L, hist):
    def walk(e):
        hist[e['type']] = hist.get(e['type'], 0) + 1
        for k in ('lhs', 'rhs', 'stepExpression'):
            if k in e: walk(e[k])
    for a in L['assets']:
        for v in a['variables']: walk(v['stepExpression'])
        for s in a['attackSteps']:
            for r in (s['reaches'], s['requires']):
                if r:
                    for e in r['stepExpressions']: walk(e)


def replay(pid, path):
    d = json.load(open(path))
    print(json.dumps(d, indent=1, default=str)[:8000])
    return 0
