"""C18 — legacy loaders: native models are translated back into the 0.0.39 file layout and into securiCAD .sCAD
archives (inverse translations written here), loaded with the legacy loaders and compared with the native model loaded
from the native file; the documents are also read by the Coq model (Legacy.v) and compared with the content."""
from __future__ import annotations
import copy, json, os, random, zipfile
from xml.sax.saxutils import quoteattr
from . import common as C
from . import langgen as LG
from . import modelgen as MG
from . import p_modelio as PMIO
from . import p_graphio as PIO

IMPORTS = 'Prelude Codec ModelIO Legacy'


def resolved(m):
    """What C18 compares: assets with every defense value, pairwise links, attacker entry points."""
    lg = m.lang_classes_factory.lang_graph
    assets = {}
    for a in m.assets:
        assets[int(a.id)] = (str(a.name), str(a.type), {d: float(getattr(a, d)) for d in MG.defenses_of(lg, str(a.type))})
    links = set()
    for c in m.associations:
        lf, rf = [str(x) for x in m.get_association_field_names(c)]
        for x in getattr(c, lf):
            for y in getattr(c, rf):
                links.add((c.__class__.__name__, lf, int(x.id), rf, int(y.id)))
    atts = {}
    for t in m.attackers:
        atts[int(t.id)] = sorted((int(a.id), tuple(sorted(set(st)))) for a, st in t.entry_points)
    return assets, links, atts


def doc_0039(content, rng, all_defenses=None):
    name, assets, assocs, atts = content
    d = {'metadata': {'name': name, 'MAL Toolbox Version': '0.0.39'}, 'assets': {}, 'associations': [], 'attackers': {}}
    for i, n, t, defs, ex in assets:
        dd = dict(defs)
        if all_defenses is not None and rng.random() < 0.5:
            dd = dict(all_defenses[i])
        entry = {'name': n, 'metaconcept': t}
        if dd:
            entry['defenses'] = dd
        d['assets'][str(i)] = entry
    for cls, lf, l, rf, r, ex in assocs:
        k = rng.random()
        body = {lf: list(l), rf: list(r)}
        if k < 0.2 and len(l) == 1:
            body[lf] = l[0]                       # a single target instead of a list
        if k < 0.6:
            d['associations'].append({'metaconcept': cls, 'association': body})
        else:
            e = {'metaconcept': cls}
            e.update(body)
            d['associations'].append(e)
    for i, n, eps in atts:
        d['attackers'][str(i)] = {'name': n, 'entry_points': {str(a): {'attack_steps': list(st)} for a, st in eps}}
    return d


def scad_of(content, rng, all_defenses=None):
    """(objects, associations) of a .sCAD model: one association element per linked pair, one per entry-point step.
    Defenses left at their default are listed too (alphabetically, as securiCAD does), with a distribution that carries
    no value or with no distribution at all: value None."""
    name, assets, assocs, atts = content
    objects = []
    for i, n, t, defs, ex in assets:
        ev = [(d[0].upper() + d[1:], v) for d, v in defs]
        if all_defenses is not None and rng.random() < 0.6:
            given = dict(defs)
            ev = sorted([(d[0].upper() + d[1:], given.get(d)) for d in all_defenses[i]], key=lambda kv: kv[0])
        objects.append((i, t, n, ev))
    objects += [(i, 'Attacker', n, []) for i, n, eps in atts]
    rng.shuffle(objects)
    links = []
    for cls, lf, l, rf, r, ex in assocs:
        for x in l:
            for y in r:
                links.append((y, x, lf, rf))            # sourceObject, targetObject, sourceProperty, targetProperty
    for i, n, eps in atts:
        for a, st in eps:
            for s in st:
                if rng.random() < 0.7:
                    links.append((i, a, 'firstSteps', s + '.attacker'))
                else:
                    links.append((a, i, s + '.attacker', 'firstSteps'))
    rng.shuffle(links)
    return objects, links


def write_scad(path, objects, links):
    out = ['<?xml version="1.0" encoding="utf-8"?>',
           '<com.foreseeti.kernalCAD:XMIObjectModel xmi:version="2.0" xmlns:xmi="http://www.omg.org/XMI" '
           'xmlns:com.foreseeti.kernalCAD="http:///com/foreseeti/ObjectModel.ecore">']
    for k, (i, t, n, ev) in enumerate(objects):
        out.append(f'  <objects description="" id="{i}" name={quoteattr(n)} metaConcept="{t}" template="false" exportedId="{k + 1}">')
        for d, v in ev:
            if v is None:
                out.append(f'    <evidenceAttributes metaConcept="{d}"><evidenceDistribution type="Bernoulli">'
                           f'<parameters name="probability"/></evidenceDistribution></evidenceAttributes>' if (k + len(d)) % 2 else
                           f'    <evidenceAttributes metaConcept="{d}"/>')
                continue
            out.append(f'    <evidenceAttributes metaConcept="{d}"><evidenceDistribution type="Bernoulli">'
                       f'<parameters name="probability" value="{v}"/></evidenceDistribution></evidenceAttributes>')
        out.append('    <evidenceAttributes metaConcept="SomeStep"/>')
        out.append('    <existence type="FixedBoolean"><parameters name="fixed" value="1.0"/></existence>')
        out.append('  </objects>')
    for k, (s, t, sp, tp) in enumerate(links):
        out.append(f'  <associations description="" sourceObject="{s}" targetObject="{t}" id="{1000 + k}" sourceProperty="{sp}" targetProperty="{tp}"/>')
    out.append('</com.foreseeti.kernalCAD:XMIObjectModel>')
    with zipfile.ZipFile(path, 'w') as z:
        z.writestr('model.eom', '\n'.join(out))
        z.writestr('meta.json', '{}')


def c_scad(objects, links) -> str:
    O = C.clist([f'(mkSO {C.cZ(i)} {C.cstr(t)} {C.cstr(n)} ' + C.clist([f'({C.cstr(d)}, {C.cZ(int(round(v * 1024)))})' for d, v in ev if v is not None]) + ')'
                 for i, t, n, ev in objects])
    A = C.clist([f'(mkSA {C.cZ(s)} {C.cZ(t)} {C.cstr(sp)} {C.cstr(tp)})' for s, t, sp, tp in links])
    return f'(mkScad {O} {A})'


def compare(ref, got, names=True):
    out = []
    ra, rl, rt = ref
    ga, gl, gt = got
    if sorted(ra) != sorted(ga):
        out.append('the legacy loader gives a different set of asset ids')
    else:
        for i in ra:
            if ra[i][1] != ga[i][1]: out.append('an asset has a different type after the legacy load')
            elif names and ra[i][0] != ga[i][0]: out.append('an asset has a different name after the legacy load')
            elif ra[i][2] != ga[i][2]: out.append('an asset has different defense values after the legacy load')
    if rl != gl:
        out.append('the pairwise links differ after the legacy load')
    if rt != gt:
        out.append('the attacker entry points differ after the legacy load')
    return out


def check(pid: str, tier: str, seed: int):
    rng = random.Random(seed * 67867979 + 18)
    violations, metas, cases39, cases_sc, cases_ld, cases_pl = [], [], [], [], [], []
    formats = {}
    with C.Scratch() as scratch:
        impl = C.import_impl()
        from maltoolbox.language import LanguageGraph, LanguageClassesFactory
        from maltoolbox.model import Model
        from maltoolbox.translators.updater import load_model_from_version_0_0_39
        from maltoolbox.translators.securicad import load_model_from_scad_archive
        lgen = LG.LangGen(rng, dup_assoc_names=0.35, reuse_fields=0.4)
        sources = []
        n = 60 if tier == 'quick' else 700
        special = LG.parallel_field_langs() * 3
        for i in range(n + len(special)):
            L = lgen.gen() if i < n else special[i - n]
            sigs = [(a['name'], a['leftAsset'], a['rightAsset']) for a in L['associations']]
            if len(set(sigs)) != len(sigs):
                continue            # same-signature duplicate associations: their classes collapse (C06 known finding)
            try:
                lg, lcf = MG.make_lang(impl, L)
            except Exception:
                continue
            m = MG.gen_model(impl, rng, L, lg, lcf, n_assets=(1, 6) if i < n else (6, 9), explicit_ids=0.35, link_density=0.6 if i < n else 1.0)
            PIO.add_model_attackers(impl, rng, m, lg)
            sources.append((f'gen{i}', L, lg, lcf, m))
        td = os.path.join(C.REPO, 'tests', 'testdata')
        clg = LanguageGraph.from_mar_archive(os.path.join(td, 'org.mal-lang.coreLang-1.0.0.mar'))
        clcf = LanguageClassesFactory(clg)
        for fn in ('simple_example_model.json', 'scad_equivalent_model.yml'):
            try:
                sources.append(('coreLang:' + fn, None, clg, clcf, Model.load_from_file(os.path.join(td, fn), clcf)))
            except Exception:
                pass
        for label, L, lg, lcf, m0 in sources:
            # the native file and the native model every comparison refers to
            nf = os.path.join(scratch, 'native.' + rng.choice(['json', 'yml']))
            m0.save_to_file(nf)
            try:
                native = Model.load_from_file(nf, lcf)
            except Exception:
                continue
            ref = resolved(native)
            content = PMIO.content_of(native)
            content = (content[0], [(i, nm, t, d, {}) for i, nm, t, d, e in content[1]], [(c, lf, l, rf, r, {}) for c, lf, l, rf, r, e in content[2]], content[3])
            alld = {int(a.id): {d: float(getattr(a, d)) for d in MG.defenses_of(lg, str(a.type))} for a in native.assets}
            pv = []
            # ---- 0.0.39
            doc = doc_0039(content, rng, alld)
            ext = rng.choice(['json', 'yml', 'yaml'])
            f39 = os.path.join(scratch, 'legacy.' + ext)
            with open(f39, 'w', encoding='utf-8') as f:
                if ext == 'json':
                    json.dump(doc, f)
                else:
                    import yaml
                    yaml.safe_dump(doc, f)
            formats['0.0.39/' + ext] = formats.get('0.0.39/' + ext, 0) + 1
            try:
                m39 = load_model_from_version_0_0_39(f39, lcf)
                got = resolved(m39)
                pv += ['0.0.39: ' + v for v in compare(ref, got)]
                if L is not None:
                    # the state the legacy loader builds, against ModelLoad.load on the content in the order of the document
                    # as parsed (PyYAML sorts keys on output)
                    parsed = json.load(open(f39, encoding='utf-8')) if ext == 'json' else __import__('yaml').safe_load(open(f39, encoding='utf-8'))
                    by_id = {a[0]: a for a in content[1]}
                    assets_o = [by_id[int(k)] for k in parsed['assets']]
                    atts_by = {t[0]: t for t in content[3]}
                    atts_o = []
                    for k, v in parsed.get('attackers', {}).items():
                        t = atts_by[int(k)]
                        eps = dict(t[2])
                        atts_o.append((t[0], t[1], [(int(a), eps[int(a)]) for a in v['entry_points']]))
                    content_o = (content[0], assets_o, content[2], atts_o)
                    cases_ld.append(f'({LG.c_lang(L)}, {PMIO.c_content(content_o)}, true, {C.cjv(PMIO.loaded_obs(m39, lg))})')
            except Exception as e:
                pv.append(f'0.0.39: the legacy loader raised {type(e).__name__} on a model the native loader accepts')
            cases39.append(f'({PMIO.c_content(content)}, {C.cjv(doc)})')
            # ---- securiCAD
            objects, links = scad_of(content, rng, alld)
            fsc = os.path.join(scratch, 'model.sCAD')
            write_scad(fsc, objects, links)
            formats['sCAD'] = formats.get('sCAD', 0) + 1
            try:
                sm = load_model_from_scad_archive(fsc, lg, lcf)
                if sm is None:
                    pv.append('sCAD: the loader returned no model for a model the native loader accepts')
                else:
                    pv += ['sCAD: ' + v for v in compare(ref, resolved(sm))]
                    if L is not None:
                        try:
                            cases_pl.append(f'({LG.c_lang(L)}, {PMIO.c_content(content)}, {PMIO.c_content(PMIO.content_of(sm))})')
                        except Exception:
                            pass
            except Exception as e:
                pv.append(f'sCAD: the loader raised {type(e).__name__} on a model the native loader accepts')
            if L is not None:
                types = C.clist([f'({C.cZ(i)}, {C.cstr(t)})' for i, nm, t, d, e in content[1]])
                cases_sc.append(f'({LG.c_lang(L)}, {PMIO.c_content(content)}, {c_scad(objects, links)})')
            metas.append({'label': label, 'prop_viol': pv, 'content': content, 'doc39': doc, 'scad': [objects, links]})
        chk39 = 'Definition check (c : content * jv) : bool := legacy39_check c.'
        bad39, _, err39 = C.run_cases('C18', IMPORTS, 'content * jv', chk39, cases39, None, shard=40)
        chksc = 'Definition check (c : lang * content * scad) : bool := scad_check c.'
        extra = {'LOOKUP': 'count_true (fun c : lang * content * scad => scad_lookup_ok (fst (fst c)) (snd (fst c))) cases'}
        badsc, counters, errsc = C.run_cases('C18S', IMPORTS + ' Lang LangGraph Classes', 'lang * content * scad', chksc, cases_sc, extra, shard=30)
        badld, cnt_ld, errld = C.run_cases('C18L', PMIO.LOAD_IMPORTS, PMIO.LOAD_TYPE, PMIO.LOAD_CHECK, cases_ld, PMIO.LOAD_EXTRA, shard=60)
        badpl, _, errpl = C.run_cases('C18P', PMIO.LOAD_IMPORTS + ' PairLoad', 'lang * content * content',
                                      'Definition check (c : lang * content * content) : bool := pairs_load_check c.', cases_pl, None, shard=60)
        badld = badld + badpl
        errld = errld + errpl
    errors = err39 + errsc + errld
    if errors:
        violations.append({'message': 'the correspondence could not be evaluated', 'cause': 'coq-error', 'correspondence': 'corr_C18_legacy', 'errors': errors[:3]})
    by_cause = {}
    for m in metas:
        for v in m['prop_viol']:
            by_cause.setdefault(v, []).append(m)
    for cause, ms in sorted(by_cause.items()):
        m = min(ms, key=lambda x: len(x['content'][1]) + len(x['content'][2]))
        violations.append({'message': cause, 'cause': cause, 'failing_input_found': True, 'model': m['label'], 'content': m['content'],
                           'legacy_document': m['doc39'] if cause.startswith('0.0.39') else m['scad'], 'cases_violating': len(ms)})
    if (bad39 or badsc or badld) and not by_cause:
        violations.append({'message': 'implementation and model disagree; no input found on which the property itself fails',
                           'cause': 'model-mismatch', 'correspondence': 'corr_C18_legacy (Legacy.legacy39_check / scad_check / ModelLoad.load on the 0.0.39 content)',
                           'mismatching_cases': len(bad39) + len(badsc) + len(badld), 'by_stream': {'0.0.39': len(bad39), 'sCAD': len(badsc), 'rebuild': len(badld)}})
    nontriv = {json.dumps(m['content'], default=str) for m in metas if m['content'][2] and m['content'][3]}
    cov = {'evaluations': len(cases39) + len(cases_sc) + len(cases_ld) + len(cases_pl), 'distinct_nontrivial': len(nontriv), 'rebuild_cases': len(cases_ld), 'scad_rebuild_cases': len(cases_pl), 'rebuild_loadable': cnt_ld.get('LOADABLE', 0),
           'rule': 'random languages (inheritance, shared association names) and native models with explicit / negative ids, links between '
                   'sub-types, self links, attackers with several entry points per attacker and per asset, plus coreLang with the shipped example '
                   'models; each is written in the 0.0.39 layout (json / yml / yaml; defenses listed fully or only when set; associations nested or '
                   'inline; single targets) and as a .sCAD archive (one association element per linked pair and per entry-point step, both '
                   'orientations), loaded with the legacy loader and compared with the native load; non-trivial = has links and attackers',
           'samples': [metas[0]['content']] if metas else [], 'formats': formats, 'premises_met': counters.get('LOOKUP', 0),
           'mismatches': len(bad39) + len(badsc) + len(badld), 'exhaustive': False}
    return {'violations': violations, 'coverage': cov,
            'trusted': ['json / PyYAML / xml.etree / zipfile turn documents into value trees (H-codec)',
                        'the inverse translations (harness/p_legacy.py doc_0039, scad_of) define what "the equivalent native model" is; '
                        'Legacy.enc39 / to_scad are their Coq counterparts, compared on every case'],
            'assumptions': ['asset names are unique and attackers of .sCAD archives are compared by id and entry points (the archive has no attacker name)',
                            'theorems are about the Gallina model; the model is tied to the code by this run only']}


def replay(pid, path):
    print(json.dumps(json.load(open(path)), indent=1, default=str)[:8000])
    return 0
