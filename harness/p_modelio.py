"""C07 — saving and loading a model: real files in {json, yml, yaml}; the document the implementation writes is
compared with ModelIO.encode of the content, read back with ModelIO.decode, and the reloaded model is compared with
the original on the implementation side (verdict)."""
from __future__ import annotations
import copy, json, os, random, time
from . import common as C
from . import langgen as LG
from . import modelgen as MG
from . import p_model as PM

IMPORTS = 'Prelude Codec ModelIO'
CASE_TYPE = 'content * jv'
CHECK_DEF = 'Definition check (c : content * jv) : bool := io_check c.'
EXTRA = {'WF': 'count_true (fun c : content * jv => wf_content (fst c)) cases'}


def content_of(m):
    """(name, assets, assocs, attackers) as ModelIO.content."""
    assets = []
    for a in m.assets:
        defs = [(k, float(v)) for k, v in m.get_asset_defenses(a).items()]
        ex = a.extras.as_dict() if hasattr(a.extras, 'as_dict') else dict(a.extras)
        assets.append((int(a.id), str(a.name), str(a.type), defs, ex))
    assocs = []
    for c in m.associations:
        lf, rf = list(m.get_association_field_names(c))
        ex = {}
        if hasattr(c, 'extras') and c.extras:
            ex = c.extras.as_dict() if hasattr(c.extras, 'as_dict') else dict(c.extras)
        assocs.append((c.__class__.__name__, str(lf), [int(x.id) for x in getattr(c, lf)], str(rf), [int(x.id) for x in getattr(c, rf)], ex))
    atts = [(t.id, str(t.name), [(int(a.id), list(st)) for a, st in t.entry_points]) for t in m.attackers]
    return (str(m.name), assets, assocs, atts)


def c_content(c) -> str:
    name, assets, assocs, atts = c
    def ex(d):
        return C.clist([f'({C.cstr(str(k))}, {C.cjv(v)})' for k, v in d.items()])
    A = C.clist([f'(mkCA {C.cZ(i)} {C.cstr(n)} {C.cstr(t)} ' +
                 C.clist([f'({C.cstr(k)}, {C.cZ(int(round(v * 1024)))})' for k, v in defs]) + f' {ex(e)})'
                 for i, n, t, defs, e in assets])
    B = C.clist([f'(mkCC {C.cstr(cls)} {C.cstr(lf)} {C.clist([C.cZ(x) for x in l])} {C.cstr(rf)} {C.clist([C.cZ(x) for x in r])} {ex(e)})'
                 for cls, lf, l, rf, r, e in assocs])
    T = C.clist([f'(mkCT {C.cZ(i)} {C.cstr(n)} ' +
                 C.clist([f'({C.cZ(a)}, {C.clist([C.cstr(s) for s in st])})' for a, st in e]) + ')' for i, n, e in atts])
    return f'(mkC {C.cstr(name)} {A} {B} {T})'


def normalise_doc(d):
    """The loaded file as a value tree: only the metadata name (the rest is constant), defense values as floats."""
    d = copy.deepcopy(d)
    d['metadata'] = {'name': d['metadata']['name']}
    for k, a in d.get('assets', {}).items():
        if isinstance(a, dict) and 'defenses' in a:
            a['defenses'] = {n: float(v) for n, v in a['defenses'].items()}
    return d



# ---- the rebuild (ModelLoad.load): the state Model._from_dict builds, observed like a history of API calls ----
LOAD_IMPORTS = 'Prelude Lang Codec ModelIO Model ModelOps ModelLoad Classes ModelSaveThm'
LOAD_TYPE = 'lang * content * bool * jv'
LOAD_CHECK = 'Definition check (c : lang * content * bool * jv) : bool := load_check_lang c.'
LOAD_EXTRA = {'LOADABLE': 'count_true loadable_lang cases'}


def defaults_table(lg, L):
    tbl = []
    for a in L['assets']:
        t = a['name']
        la = lg.get_asset_by_name(t)
        row = []
        for name in MG.defenses_of(lg, t):
            step = next(s for s in la.attack_steps if s.name == name)
            row.append((name, 1024 if (step.ttc and step.ttc.get('name') == 'Enabled') else 0))
        tbl.append((t, row))
    return tbl


def c_table(tbl) -> str:
    return C.clist([f'({C.cstr(t)}, ' + C.clist([f'({C.cstr(k)}, {C.cZ(v)})' for k, v in row]) + ')' for t, row in tbl])


def loaded_obs(m2, lg):
    """ModelOps.obs_mstate of a model built by the loader: handles are the positions in the lists of the model."""
    w = PM.MWorld.__new__(PM.MWorld)
    w.m, w.lg = m2, lg
    w.assets, w.assocs, w.atts = list(m2.assets), list(m2.associations), list(m2.attackers)
    w.assoc_meta = []
    for c in w.assocs:
        lf, rf = list(m2.get_association_field_names(c))
        w.assoc_meta.append((c.__class__.__name__, str(lf), str(rf)))
    return w.obs()


def doc_of_content(cont):
    name, assets, assocs, atts = cont
    doc = {'metadata': {'name': name, 'langVersion': '0', 'langID': 'x'}, 'assets': {}, 'associations': [], 'attackers': {}}
    for i, n, t, defs, ex in assets:
        e = {'name': n, 'type': t}
        if defs: e['defenses'] = dict(defs)
        if ex: e['extras'] = copy.deepcopy(ex)
        doc['assets'][i] = e
    for cls, lf, l, rf, r, ex in assocs:
        e = {cls: {lf: list(l), rf: list(r)}}
        if ex: e['extras'] = copy.deepcopy(ex)
        doc['associations'].append(e)
    for i, n, eps in atts:
        doc['attackers'][i] = {'name': n, 'entry_points': {a: {'attack_steps': list(st)} for a, st in eps}}
    return doc


def mutate_content(rng, cont):
    """Contents the loader must treat specially: a duplicate asset name (renamed), a repeated link (rejected),
    a reference to an asset that is not there (rejected)."""
    name, assets, assocs, atts = copy.deepcopy(cont)
    kind = rng.choice(['dupname', 'duplink', 'missing'])
    if kind == 'dupname' and len(assets) >= 2:
        i, j = rng.sample(range(len(assets)), 2)
        a = list(assets[j]); a[1] = assets[i][1]; assets[j] = tuple(a)
    elif kind == 'duplink' and assocs:
        c = rng.choice(assocs)
        assocs.append((c[0], c[1], [rng.choice(c[2])], c[3], [rng.choice(c[4])], {}))
    elif kind == 'missing' and assocs:
        j = rng.randrange(len(assocs))
        c = list(assocs[j]); c[2] = list(c[2]) + [977]; assocs[j] = tuple(c)
    else:
        return None, None
    return kind, (name, assets, assocs, atts)


def load_case(impl, cont, lg, lcf, L):
    """Run Model._from_dict on the document of the content; returns the Gallina case and whether it loaded."""
    from maltoolbox.model import Model
    doc = doc_of_content(cont)
    try:
        m2 = Model._from_dict(doc, lcf)
        ok, obs = True, loaded_obs(m2, lg)
    except RecursionError:
        raise
    except Exception:
        ok, obs = False, None
    return f'({LG.c_lang(L)}, {c_content(cont)}, {C.cbool(ok)}, {C.cjv(obs)})', ok

def build_model(impl, rng, L, fixed):
    g = PM.Gen(impl, L, rng)
    for _ in range(rng.randint(10, 32)):
        try:
            g.step()
        except Exception:
            break
    # extras on associations, and the removal of an asset that takes part in several associations, are frequent
    try:
        for c in list(g.w.m.associations):
            if rng.random() < 0.3:
                g.do(('set_assoc_extras', g.w.ch(c), rng.choice([{'k': 2}, {'p': {'q': [1, 2]}}, {'on': True, 'n': None, 'l': [False, 'true']}])))
        if rng.random() < 0.35:
            multi = [g.w.ah(a) for a in g.w.m.assets if len(a.associations) >= 2]
            if multi:
                g.do(('remove_asset', rng.choice(multi)))
    except Exception:
        pass
    # entry points as the library's own tests set them: by assignment, possibly with no step or a step named twice
    try:
        if g.w.m.attackers and g.w.m.assets and rng.random() < 0.25:
            t = rng.choice(g.w.m.attackers)
            a = rng.choice(g.w.m.assets)
            if not any(a is x for x, _ in t.entry_points):
                steps = [s.name for s in g.w.lg.get_asset_by_name(str(a.type)).attack_steps]
                st = rng.choice(steps) if steps else 't'
                t.entry_points = list(t.entry_points) + [(a, rng.choice([[], [st, st], [st]]))]
    except Exception:
        pass
    m = g.w.m
    m.name = rng.choice(['model', 'müdel ✓', 'a: b', '0123', 'mo\x85del', 'two\nlines'])
    # names that are significant to YAML / unicode, applied to live assets (kept unique)
    tricky = ['yes', '0123', '~', '1e3', 'a: b', '#x', 'ünï', 'null', 'x:1', ' lead', 'trail ', 'rack 1\x85row 2', 'a\u2028b',
              '\ufeffbom', 'nb\xa0sp', 'tab\there', 'line\nbreak', "quo'te", 'dq"uote', '- dash', '? q', '[x]', '{y}', '!tag',
              '&anc', '*ali', '%pct', '@at', '`bt', '|', '>', 'é中😀', 'bell\x07', 'a\u2029b', '\x85', 'x\x85']
    rng.shuffle(tricky)
    for a in m.assets:
        if rng.random() < 0.3 and tricky:
            new = tricky.pop()
            if new not in m.asset_names:
                m.asset_names.discard(str(a.name))
                a.name = new
                m.asset_names.add(new)
    # attackers: unique ids (the file format keys them by id)
    seen = set()
    for t in list(m.attackers):
        if t.id in seen:
            m.attackers.remove(t)
        seen.add(t.id)
    return m


def property_violations(impl, m, lcf, d):
    """Save in each format, load, compare; save again, compare bytes."""
    from maltoolbox.model import Model
    out = []
    ref = m._to_dict()
    docs = {}
    for ext in ('json', 'yml', 'yaml'):
        fn = os.path.join(d, f'model.{ext}')
        try:
            m.save_to_file(fn)
        except Exception as e:
            out.append(f'saving to .{ext} raised {type(e).__name__}')
            continue
        try:
            m2 = Model.load_from_file(fn, lcf)
        except Exception as e:
            out.append(f'loading the saved .{ext} file raised {type(e).__name__}')
            continue
        try:
            got = m2._to_dict()
        except Exception as e:
            out.append(f'the model loaded from .{ext} cannot be serialized again ({type(e).__name__}): it is not the saved one')
            continue
        if json.dumps(got, sort_keys=True, default=str) != json.dumps(ref, sort_keys=True, default=str):
            out.append(f'the model loaded from .{ext} differs from the saved one')
        for a in m.assets:
            b = m2.get_asset_by_id(int(a.id))
            if b is None or str(b.type) != str(a.type) or str(b.name) != str(a.name):
                out.append(f'an asset changed id / name / type over the .{ext} round trip')
                continue
            for dname in MG.defenses_of(lcf.lang_graph, str(a.type)):
                if float(getattr(a, dname)) != float(getattr(b, dname)):
                    out.append(f'defense {dname} changed over the .{ext} round trip')
        fn2 = os.path.join(d, f'again.{ext}')
        m2.save_to_file(fn2)
        if open(fn).read() != open(fn2).read():
            out.append(f'saving the loaded model does not reproduce the .{ext} file')
        loader = json.load if ext == 'json' else __import__('yaml').safe_load
        docs[ext] = loader(open(fn, encoding='utf-8'))
    return out, docs


def handwritten_cases(impl, rng, L, lcf):
    """Documents with asset ids in any order, id 0, negative ids and the type-only shorthand."""
    from maltoolbox.model import Model
    types = [a['name'] for a in L['assets']]
    ids = rng.sample([0, 1, 2, 3, 5, 8, -1, -4], rng.randint(2, 5))
    assets = {}
    for i in ids:
        t = rng.choice(types)
        assets[i] = t if rng.random() < 0.4 else {'name': f'h{i}', 'type': t}
    doc = {'metadata': {'name': 'hand', 'langVersion': '0', 'langID': 'x'}, 'assets': assets, 'associations': [], 'attackers': {}}
    return doc


def check(pid: str, tier: str, seed: int):
    import tempfile, shutil
    t0 = time.time()
    rng = random.Random(seed * 86028121 + 7)
    violations, cases, metas = [], [], []
    lcases, lmetas = [], []
    formats = {'json': 0, 'yml': 0, 'yaml': 0}
    with C.Scratch() as scratch:
        impl = C.import_impl()
        from maltoolbox.model import Model
        L0 = PM.fixed_language()
        L0['associations'].append(LG.assoc('zlower', 'Aa', 'za', 'Bb', 'zb'))     # a class name that sorts after "extras"
        L1 = LG.lang([LG.asset('Aa', None, [LG.step('t', 'or'), LG.step('df', 'defense', ttc=LG.TTC_ENABLED), LG.step('dh', 'defense')]),
                      LG.asset('Cc', None, [LG.step('t', 'or'), LG.step('df', 'defense'), LG.step('dh', 'defense', ttc=LG.TTC_ENABLED)])],
                     [LG.assoc('Rr', 'Aa', 'ra', 'Cc', 'rc')])
        lgen = LG.LangGen(rng, dup_assoc_names=0.3)
        # asset type names that contain the keys of an asset entry ("type", "name")
        L2 = LG.lang([LG.asset('Prototype', None, [LG.step('t', 'or'), LG.step('df', 'defense')]),
                      LG.asset('Rename', 'Prototype', [LG.step('u', 'or')])],
                     [LG.assoc('Extrasx', 'Prototype', 'pa', 'Rename', 'pb')])
        langs = [L0, L1, L2, L0, L1] + [lgen.gen() for _ in range(5 if tier == 'quick' else 30)]
        n = 150 if tier == 'quick' else 2500
        for i in range(n):
            L = langs[i % len(langs)]
            m = build_model(impl, rng, L, i % len(langs) < 5)
            lcf = m.lang_classes_factory
            d = tempfile.mkdtemp(dir=scratch)
            pv, docs = property_violations(impl, m, lcf, d)
            shutil.rmtree(d, ignore_errors=True)
            cont = content_of(m)
            for ext, doc in docs.items():
                formats[ext] += 1
                cases.append(f'({c_content(cont)}, {C.cjv(normalise_doc(doc))})')
                metas.append({'content': cont, 'format': ext, 'prop_viol': pv, 'kind': 'roundtrip'})
            if not docs:
                metas.append({'content': cont, 'format': None, 'prop_viol': pv, 'kind': 'roundtrip'})
            # the rebuild: the state the loader builds from this content, and from damaged variants of it
            lg = lcf.lang_graph
            lc, ok = load_case(impl, cont, lg, lcf, L)
            lcases.append(lc)
            lmetas.append({'content': cont, 'kind': 'saved', 'impl_loaded': ok})
            if not ok:
                pv.append('the document of a model built through the API was rejected by the loader')
            if rng.random() < 0.5:
                kind, mc = mutate_content(rng, cont)
                if mc is not None:
                    lc, ok = load_case(impl, mc, lg, lcf, L)
                    lcases.append(lc)
                    lmetas.append({'content': mc, 'kind': kind, 'impl_loaded': ok})
        # hand-written documents
        for i in range(60 if tier == 'quick' else 600):
            L = langs[i % len(langs)]
            lg, lcf = MG.make_lang(impl, L)
            doc = handwritten_cases(impl, rng, L, lcf)
            pv = []
            for ext in ('json', 'yml'):
                fn = os.path.join(scratch, f'hand.{ext}')
                with open(fn, 'w', encoding='utf-8') as f:
                    if ext == 'json':
                        json.dump(doc, f)
                    else:
                        __import__('yaml').safe_dump(doc, f, sort_keys=False)
                try:
                    m = Model.load_from_file(fn, lcf)
                except Exception as e:
                    pv.append(f'a hand-written .{ext} file (ids in any order, id 0, shorthand) failed to load: {type(e).__name__}')
                    continue
                got = {int(a.id): (str(a.name), str(a.type)) for a in m.assets}
                exp = {i: ((f'{v}:{i}', v) if isinstance(v, str) else (v['name'], v['type'])) for i, v in doc['assets'].items()}
                if got != exp or [int(a.id) for a in m.assets] != list(doc['assets'].keys()):
                    pv.append(f'a hand-written .{ext} file did not load to the model it describes')
            cont = ('hand', [(i, (f'{v}:{i}' if isinstance(v, str) else v['name']), (v if isinstance(v, str) else v['type']), [], {})
                             for i, v in doc['assets'].items()], [], [])
            # the shorthand does not re-encode to itself, so only the decode direction is compared: use the full form
            full = copy.deepcopy(doc)
            full['assets'] = {i: ({'name': f'{v}:{i}', 'type': v} if isinstance(v, str) else v) for i, v in doc['assets'].items()}
            cases.append(f'({c_content(cont)}, {C.cjv(normalise_doc(full))})')
            metas.append({'content': cont, 'format': 'hand', 'prop_viol': pv, 'kind': 'handwritten', 'doc': doc})
        bad, counters, errors = C.run_cases(pid, IMPORTS, CASE_TYPE, CHECK_DEF, cases, EXTRA)
        lbad, lcounters, lerrors = C.run_cases(pid + 'L', LOAD_IMPORTS, LOAD_TYPE, LOAD_CHECK, lcases, LOAD_EXTRA, shard=100)
        errors = errors + lerrors
    if errors:
        violations.append({'message': 'the correspondence could not be evaluated', 'cause': 'coq-error',
                           'correspondence': 'corr_C07_encode_decode', 'errors': errors[:3]})
    propbad = [m for m in metas if m['prop_viol']]
    if propbad:
        m = min(propbad, key=lambda x: len(json.dumps(x['content'], default=str)))
        violations.append({'message': m['prop_viol'][0], 'cause': m['prop_viol'][0], 'failing_input_found': True,
                           'content': m['content'], 'document': m.get('doc'), 'all_violations': m['prop_viol'], 'cases_violating': len(propbad)})
    elif bad:
        cm = [m for m in metas if m['format'] is not None]
        m = cm[bad[0]]
        violations.append({'message': 'implementation and model disagree; no input found on which the property itself fails',
                           'cause': 'model-mismatch', 'correspondence': 'corr_C07_encode_decode (ModelIO.encode / decode)',
                           'content': m['content'], 'format': m['format'], 'mismatching_cases': len(bad)})
    if lbad and not propbad:
        m = min((lmetas[i] for i in lbad), key=lambda x: len(json.dumps(x['content'], default=str)))
        violations.append({'message': 'the loader and its model (ModelLoad.load) build different models; no input found on which the property itself fails',
                           'cause': 'model-mismatch-load', 'correspondence': 'corr_C07_load (ModelLoad.load_check)',
                           'content': m['content'], 'kind': m['kind'], 'impl_loaded': m['impl_loaded'], 'mismatching_cases': len(lbad)})
    nontriv = {json.dumps(m['content'], sort_keys=True, default=str) for m in metas
               if m['kind'] == 'roundtrip' and m['content'][2] and m['content'][1]}
    lk = {}
    for m in lmetas:
        lk[m['kind']] = lk.get(m['kind'], 0) + 1
    cov = {'evaluations': len(cases) + len(lcases), 'distinct_nontrivial': len(nontriv),
           'load_cases': lk, 'load_cases_loadable': lcounters.get('LOADABLE', 0), 'load_mismatches': len(lbad),
           'rule': 'models built by seeded API histories (removals, explicit / zero / negative ids, non-default defenses, extras on assets and '
                   'associations, attackers with entry points, duplicate-named association classes, unicode and YAML-significant names) saved to '
                   '.json/.yml/.yaml, loaded, re-saved; + hand-written documents with ids in any order, id 0 and the type-only shorthand; '
                   'non-trivial = the model has assets and associations; distinct by content',
           'samples': [metas[0]['content']] if metas else [], 'formats': formats,
           'handwritten': sum(1 for m in metas if m['kind'] == 'handwritten'), 'premises_met': counters.get('WF', 0),
           'mismatches': len(bad), 'exhaustive': False}
    return {'violations': violations, 'coverage': cov,
            'trusted': ['json / PyYAML turn a value tree into text and back; integer keys become strings in JSON (H-codec)',
                        'float(str(x)) = x for the defense values used (dyadic)'],
            'assumptions': ['attacker ids are distinct (the file format keys attackers by id)',
                            'every content of a model built through the API satisfies ModelLoad.loadable (counted: load_cases_loadable; '
                            'a content that is not loadable and loads anyway, or the reverse, is a mismatch)',
                            'theorems are about the Gallina model; the model is tied to the code by this run only']}


def replay(pid, path):
    print(json.dumps(json.load(open(path)), indent=1, default=str)[:8000])
    return 0
