"""C15 — the language graph mirrors the language and over-approximates every attack graph: correspondence between
LanguageGraph(spec) and LangGraph.lang_graph, plus the edge-prediction check against generated attack graphs."""
from __future__ import annotations
import copy, json, random, signal, time
from . import common as C
from . import langgen as LG
from . import modelgen as MG

IMPORTS = 'Prelude Lang LangGraph'
CASE_TYPE = 'lang * list (string * string * string * string) * jv'
CHECK_DEF = 'Definition check (c : lang * list (string * string * string * string) * jv) : bool := lg_check c.'
EXTRA = {'OKGRAPHS': 'count_true (fun c : lang * list (string * string * string * string) * jv => '
                     'match lang_graph (fst (fst c)) with LOk _ => true | LErr _ => false end) cases'}


def akey(name, lf, rf):
    return f'{name}/{lf}/{rf}'


def observe(impl, L, queries):
    from maltoolbox.language import LanguageGraph
    from maltoolbox import exceptions as X
    try:
        lg = LanguageGraph(L)
    except X.LanguageGraphSuperAssetNotFoundError:
        return ['error', 1], None
    except X.LanguageGraphAssociationError:
        return ['error', 2], None
    except X.LanguageGraphStepExpressionError:
        return ['error', 3], None
    except (X.LanguageGraphException, AttributeError):
        return ['error', 4], None
    except RecursionError:
        return ['error', 5], None
    except Exception as e:           # anything else is not an error report of the language graph
        return ['error', 9], None
    return observe_lg(lg, queries), lg


def observe_lg(lg, queries):
    """The observation of an existing language graph object."""
    names = [a.name for a in lg.assets]
    assets = []
    for a in lg.assets:
        assets.append([a.name, [s.name for s in a.super_assets], [s.name for s in a.sub_assets],
                       sorted((akey(c.name, c.left_field.fieldname, c.right_field.fieldname) for c in a.associations), key=C.skey),
                       [s.name for s in a.attack_steps]])
    assocs = [[c.name, c.left_field.asset.name, c.left_field.fieldname, c.left_field.minimum, c.left_field.maximum,
               c.right_field.asset.name, c.right_field.fieldname, c.right_field.minimum, c.right_field.maximum]
              for c in lg.associations]
    links = []
    for s in lg.attack_steps:
        for nm, lst in s.children.items():
            for (t, _) in lst:
                links.append(f'{s.asset.name}:{s.name}>{t.asset.name}:{t.name}')
    links.sort(key=C.skey)
    sub = [[bool(lg.get_asset_by_name(t).is_subasset_of(lg.get_asset_by_name(u))) for u in names] for t in names]
    # the downward closure, asked twice (a query must not use up what it walks), must be the converse of the upward one
    subq = []
    for rnd in (1, 2):
        for u in names:
            down = sorted(x.name for x in lg.get_asset_by_name(u).get_all_subassets())
            exp = sorted(t for i, t in enumerate(names) if sub[i][names.index(u)])
            if down != exp:
                subq.append(f'get_all_subassets of {u} (query {rnd}) = {down}, the sub-types are {exp}')
    for a, row in zip(lg.assets, assets):
        if [s.name for s in a.sub_assets] != row[2]:
            subq.append(f'the sub assets of {a.name} changed while the graph was queried')
    lg._verif_subq = subq
    look = []
    for f1, f2, t1, t2 in queries:
        try:
            c = lg.get_association_by_fields_and_assets(f1, f2, t1, t2)
            look.append(None if c is None else akey(c.name, c.left_field.fieldname, c.right_field.fieldname))
        except LookupError:
            look.append('LookupError')
    return ['ok', assets, assocs, links, sub, look]


def property_violations(L, obs, lg, queries, wf):
    out = []
    st = LG.Static(L)
    if obs[0] == 'error':
        if wf:
            out.append(f'a well-formed language was rejected (error kind {obs[1]})')
        return out
    if not wf:
        return ['an ill-formed language (unknown super asset / association end / step target) was accepted']
    _, assets, assocs, links, sub, look = obs
    names = [a['name'] for a in L['assets']]
    if [a[0] for a in assets] != names:
        out.append('the language graph does not have one asset per declared asset')
        return out
    for a, spec in zip(assets, L['assets']):
        if a[1] != ([spec['superAsset']] if spec['superAsset'] else []):
            out.append(f'super link of {a[0]} does not mirror extends')
        if a[2] != [x['name'] for x in L['assets'] if x['superAsset'] == a[0]]:
            out.append(f'sub links of {a[0]} do not mirror extends')
        distinct = {(c['name'], c['leftField'], c['rightField'], c['leftAsset'], c['rightAsset']) for c in L['associations']
                    if st.is_sub(a[0], c['leftAsset']) or st.is_sub(a[0], c['rightAsset'])}
        exp = sorted((akey(n, lf, rf) for n, lf, rf, la, ra in distinct), key=C.skey)
        if a[3] != exp:
            out.append(f'{a[0]} does not list exactly the associations it or an ancestor takes part in')
    for i, t in enumerate(names):
        for j, u in enumerate(names):
            if sub[i][j] != st.is_sub(t, u):
                out.append(f'is_subasset_of({t}, {u}) differs from the reflexive-transitive closure of extends')
    for (f1, f2, t1, t2), r in zip(queries, look):
        match = [c for c in L['associations'] if
                 (c['leftField'] == f1 and c['rightField'] == f2 and st.is_sub(t1, c['leftAsset']) and st.is_sub(t2, c['rightAsset'])) or
                 (c['leftField'] == f2 and c['rightField'] == f1 and st.is_sub(t2, c['leftAsset']) and st.is_sub(t1, c['rightAsset']))]
        keys = {akey(c['name'], c['leftField'], c['rightField']) for c in match}
        if (r is None) != (not keys) or (r is not None and r not in keys):
            out.append(f'association lookup ({f1},{f2},{t1},{t2}) answered {r}, expected one of {sorted(keys)}')
    # every link in the source's children is in the target's parents and vice versa
    for s in lg.attack_steps:
        for nm, lst in s.children.items():
            for (t, _) in lst:
                if not any(p is s for (p, _) in t.parents.get(s.name, [])):
                    out.append(f'link {s.asset.name}:{s.name} -> {t.asset.name}:{t.name} is missing from the target\'s parents')
        for nm, lst in s.parents.items():
            for (p, _) in lst:
                if not any(c is s for (c, _) in p.children.get(s.name, [])):
                    out.append(f'link {p.asset.name}:{p.name} -> {s.asset.name}:{s.name} is missing from the source\'s children')
    return out


def edge_prediction_violations(impl, L, lg, rng, dense=False):
    """For a random valid model: every attack-graph edge X:s -> Y:t is predicted by a language-graph link from
    step s of X's type to a step t owned by Y's type or one of its ancestors."""
    from maltoolbox.language import LanguageClassesFactory
    from maltoolbox.attackgraph import AttackGraph
    st = LG.Static(L)
    lcf = LanguageClassesFactory(lg)
    if dense:
        # one asset of every type, every association between every admissible pair
        from maltoolbox.model import Model
        m = Model('dense', lcf)
        for a in L['assets']:
            m.add_asset(getattr(lcf.ns, a['name'])(name=a['name'].lower()))
        for assoc in lg.associations:
            cname, cls = MG.assoc_class(lcf, assoc)
            for x in m.assets:
                for y in m.assets:
                    if st.is_sub(str(x.type), assoc.left_field.asset.name) and st.is_sub(str(y.type), assoc.right_field.asset.name):
                        try:
                            o = cls()
                            setattr(o, assoc.left_field.fieldname, [x])
                            setattr(o, assoc.right_field.fieldname, [y])
                            m.add_association(o)
                        except Exception:
                            pass
    else:
        m = MG.gen_model(impl, rng, L, lg, lcf)
    try:
        g = AttackGraph(lg, m)
    except Exception:
        return [], 0
    table = set()
    for s in lg.attack_steps:
        for nm, lst in s.children.items():
            for (t, _) in lst:
                table.add((s.asset.name, s.name, t.asset.name, t.name))
    out = []
    n = 0
    for x in g.nodes:
        for y in x.children:
            n += 1
            tx, ty = str(x.asset.type), str(y.asset.type)
            if not any((tx, x.name, u, y.name) in table for u in st.chain(ty)):
                out.append(f'attack-graph edge {x.full_name} -> {y.full_name} ({tx} -> {ty}) is not predicted by the language graph')
    return out, n


def ill_formed(rng, L):
    """One ill-formed variant of a well-formed language."""
    L = copy.deepcopy(L)
    kind = rng.choice(['super', 'assoc_end', 'step_target', 'field'])
    if kind == 'super':
        rng.choice(L['assets'])['superAsset'] = 'Nowhere'
    elif kind == 'assoc_end' and L['associations']:
        c = rng.choice(L['associations'])
        c[rng.choice(['leftAsset', 'rightAsset'])] = 'Nowhere'
        if c['leftAsset'] == 'Nowhere' and c['rightAsset'] == 'Nowhere':
            return None
        if not any(c['leftAsset'] == a['name'] or c['rightAsset'] == a['name'] for a in L['assets']):
            return None
    else:
        cands = [(a, s) for a in L['assets'] for s in a['attackSteps'] if s['reaches'] and s['reaches']['stepExpressions']]
        if not cands:
            return None
        a, s = rng.choice(cands)
        e = s['reaches']['stepExpressions'][0]
        if kind == 'step_target':
            node = e
            while node['type'] == 'collect':
                node = node['rhs']
            if node['type'] != 'attackStep':
                return None
            node['name'] = 'nosuchstep'
        else:
            node = e
            while node['type'] == 'collect':
                node = node['lhs']
            if node['type'] != 'field':
                return None
            node['name'] = 'nosuchfield'
    return L


def union_family():
    """Unions of unrelated types whose closest common super asset is one, two or three levels above either operand,
    in both operand orders, with the target step declared on the root or on an intermediate asset."""
    F, S, CO, U = LG.F, LG.S, LG.CO, LG.U
    out = []
    for depth_l in (1, 2, 3):
        for depth_r in (1, 2, 3):
            for step_on in ('Root', 'L1', 'R1'):
                assets = [LG.asset('Root', None, [LG.step('hit', 'or')] if step_on == 'Root' else [LG.step('other', 'or')])]
                for side, depth in (('L', depth_l), ('R', depth_r)):
                    prev = 'Root'
                    for k in range(1, depth + 1):
                        steps = [LG.step('hit', 'or')] if step_on == f'{side}{k}' else []
                        assets.append(LG.asset(f'{side}{k}', prev, steps))
                        prev = f'{side}{k}'
                if step_on != 'Root' and not any(a['name'] == step_on for a in assets):
                    continue
                lt, rt = f'L{depth_l}', f'R{depth_r}'
                if step_on in ('L1', 'R1'):
                    continue_ok = False        # a step that only one branch has cannot be reached through the union's type
                    continue
                for order in (0, 1):
                    e = U(F('ls'), F('rs')) if order == 0 else U(F('rs'), F('ls'))
                    src = LG.asset('Src', None, [LG.step('go', 'or', reaches=[CO(e, S('hit'))])])
                    out.append(LG.lang(assets + [src], [LG.assoc('Pl', 'Src', 'srcl', lt, 'ls'), LG.assoc('Pr', 'Src', 'srcr', rt, 'rs')]))
    return out


def check(pid: str, tier: str, seed: int):
    t0 = time.time()
    rng = random.Random(seed * 32452843 + 15)
    violations, cases, metas = [], [], []
    n_edges = 0
    with C.Scratch():
        impl = C.import_impl()
        gen = LG.LangGen(rng, dup_assoc_names=0.25, reuse_fields=0.35)
        n = 260 if tier == 'quick' else 4000
        handmade = union_family() + LG.parallel_field_langs()
        for i in range(n + len(handmade)):
            L = gen.gen() if i < n else handmade[i - n]
            if i % 2 == 1:
                # any declaration order: sub-assets before their super assets
                L = copy.deepcopy(L)
                rng.shuffle(L['assets'])
            variants = [(L, True)]
            if i % 3 == 0:
                bad = ill_formed(rng, L)
                if bad is not None:
                    variants.append((bad, False))
            for LL, wf in variants:
                st = LG.Static(LL)
                names = [a['name'] for a in LL['assets']]
                fields = sorted({c['leftField'] for c in LL['associations']} | {c['rightField'] for c in LL['associations']})
                queries = []
                for c in LL['associations']:
                    for _ in range(2):
                        t1, t2 = rng.choice(names), rng.choice(names)
                        if rng.random() < 0.5:
                            queries.append((c['leftField'], c['rightField'], t1, t2))
                        else:
                            queries.append((c['rightField'], c['leftField'], t1, t2))
                if fields and len(fields) > 1:
                    queries.append((rng.choice(fields), rng.choice(fields), rng.choice(names), rng.choice(names)))
                if i >= n and len(names) <= 5:
                    # hand-made languages: every pair of types, both orientations
                    for c in LL['associations']:
                        for t1 in names:
                            for t2 in names:
                                queries.append((c['leftField'], c['rightField'], t1, t2))
                                queries.append((c['rightField'], c['leftField'], t1, t2))
                snap = copy.deepcopy(LL)
                obs, lg = observe(impl, LL, queries)
                pv = property_violations(snap, obs, lg, queries, wf)
                if lg is not None:
                    pv += getattr(lg, '_verif_subq', [])
                if wf and lg is not None and i % 4 == 0:
                    # the same object after regenerate_graph answers every query as a fresh one does
                    try:
                        with C.time_limit(20):
                            lg.regenerate_graph()
                            obs2 = observe_lg(lg, queries)
                        if obs2 != obs:
                            pv += ['after regenerate_graph: ' + v for v in property_violations(snap, obs2, lg, queries, wf)] or \
                                  ['after regenerate_graph the language graph answers differently from a fresh one']
                    except RecursionError:
                        pv.append('after regenerate_graph a query of the language graph does not terminate (RecursionError)')
                    except C.ImplTimeout:
                        pv.append('after regenerate_graph a query of the language graph does not terminate')
                    except Exception as e:
                        pv.append(f'after regenerate_graph a query of the language graph raised {type(e).__name__}')
                if wf and lg is not None and (i % 2 == 0 or i >= n):
                    ev, k = edge_prediction_violations(impl, snap, lg, rng, dense=(i >= n))
                    pv += ev
                    n_edges += k
                qs = C.clist([f'({C.cstr(a)}, {C.cstr(b)}, {C.cstr(c)}, {C.cstr(d)})' for a, b, c, d in queries])
                cases.append(f'({LG.c_lang(snap)}, {qs}, {C.cjv(obs)})')
                metas.append({'lang': snap, 'wf': wf, 'obs': obs, 'queries': queries, 'prop_viol': pv})
        bad, counters, errors = C.run_cases(pid, IMPORTS, CASE_TYPE, CHECK_DEF, cases, EXTRA, shard=60)
    if errors:
        violations.append({'message': 'the correspondence could not be evaluated', 'cause': 'coq-error',
                           'correspondence': 'corr_C15_lang_graph', 'errors': errors[:3]})
    propbad = [m for m in metas if m['prop_viol']]
    if propbad:
        m = min(propbad, key=lambda x: len(json.dumps(x['lang'])))
        violations.append({'message': m['prop_viol'][0], 'cause': m['prop_viol'][0], 'failing_input_found': True,
                           'lang': m['lang'], 'well_formed': m['wf'], 'observed': m['obs'], 'all_violations': m['prop_viol'][:10],
                           'cases_violating': len(propbad)})
    elif bad:
        m = metas[bad[0]]
        qs = C.clist([f'({C.cstr(a)}, {C.cstr(b)}, {C.cstr(c)}, {C.cstr(d)})' for a, b, c, d in m['queries']])
        model_obs = C.coq_eval(IMPORTS, f"obs_lang_graph {LG.c_lang(m['lang'])} {qs}")
        violations.append({'message': 'implementation and model disagree; no input found on which the property itself fails',
                           'cause': 'model-mismatch', 'correspondence': 'corr_C15_lang_graph (LangGraph.lang_graph)',
                           'lang': m['lang'], 'impl_obs': m['obs'], 'model_obs': model_obs[:5000], 'mismatching_cases': len(bad)})
    nontriv = {json.dumps(m['obs'], sort_keys=True) for m in metas if m['obs'][0] == 'ok' and m['obs'][3]}
    cov = {'evaluations': len(cases), 'distinct_nontrivial': len(nontriv),
           'rule': 'seeded type-directed random languages (duplicate association names in a quarter of them) and, for every third, an '
                   'ill-formed variant (unknown super asset / association end / step target / field); association lookups for random '
                   '(field, field, type, type) quadruples in both orientations; for every second well-formed language a random model whose '
                   'attack-graph edges are checked against the link table; non-trivial = the language graph has at least one step-to-step link',
           'samples': [metas[0]['lang']['associations'] if metas else None, metas[-1]['obs'][3][:5] if metas and metas[-1]['obs'][0] == 'ok' else None],
           'well_formed': sum(1 for m in metas if m['wf']), 'ill_formed': sum(1 for m in metas if not m['wf']),
           'error_outcomes': sum(1 for m in metas if m['obs'][0] == 'error'),
           'attack_graph_edges_checked': n_edges, 'model_accepts': counters.get('OKGRAPHS', 0), 'mismatches': len(bad), 'exhaustive': False}
    return {'violations': violations, 'coverage': cov, 'trusted': [],
            'assumptions': ['field names are unique among the association ends of a language, variables are not shadowed and transitive '
                            'sub-expressions are endo-typed (LangGraphThm.wt, evaluated per case) for the over-approximation theorem',
                            'theorems are about the Gallina model; the model is tied to the code by this run only']}


def replay(pid, path):
    print(json.dumps(json.load(open(path)), indent=1, default=str)[:8000])
    return 0
