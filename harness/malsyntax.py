"""MAL concrete syntax for the C04 / C17 checks: a printer from language specifications (the langspec.json format) to
MAL token lists / text (mirrors coq/theories/MalPrint.v), Gallina terms for tokens (Mal.tok), ANTLR parse trees
(Mal.cmal) and typed specifications (Mal.fspec), and a generator of random well-formed specifications."""
from __future__ import annotations
import random
from . import common as C

KEYWORDS = {'abstract': 'KAbstract', 'asset': 'KAsset', 'associations': 'KAssociations', 'extends': 'KExtends',
            'include': 'KInclude', 'category': 'KCategory', 'info': 'KInfo', 'let': 'KLet', 'E': 'KE', 'C': 'KC', 'I': 'KI', 'A': 'KA'}
SYMBOLS = {'(': 'LPar', ')': 'RPar', '{': 'LCur', '}': 'RCur', '#': 'Hash', ':': 'Colon', '<--': 'LArrow', '-->': 'RArrow',
           '[': 'LSq', ']': 'RSq', '*': 'Star', '=': 'Assign', '-': 'Minus', '/\\': 'Intersect', '\\/': 'Union', '..': 'Range',
           '.': 'Dot', '&': 'And', '|': 'Or', '!E': 'NotExists', '@': 'At', '<-': 'Requires', '+>': 'Inherits', '->': 'LeadsTo',
           ',': 'Comma', '+': 'Plus', '/': 'Divide', '^': 'Power'}
SETOPS = {'union': '\\/', 'intersection': '/\\', 'difference': '-'}
TTCOPS = {'addition': '+', 'subtraction': '-', 'multiplication': '*', 'division': '/', 'exponentiation': '^'}

# a token is (kind, text): kind in {'kw', 'sym', 'id', 'str', 'int', 'float'}
def t_id(s): return ('id', s)
def t_sym(s): return ('sym', s)
def t_kw(s): return ('kw', s)
def t_str(s): return ('str', s)


def num_token(v):
    """The lexeme chosen for a TTC number (floats are printed with repr, which never has an exponent for the values used)."""
    text = repr(float(v))
    if 'e' in text or 'E' in text or 'n' in text:
        raise ValueError(f'number {v!r} has no MAL lexeme')
    return ('float', text)


class Unprintable(ValueError):
    pass


def ident_ok(s):
    return isinstance(s, str) and s != '' and all(c.isascii() and (c.isalnum() or c == '_') for c in s) and s not in KEYWORDS \
        and not s.isdigit()


def need_id(s):
    if not ident_ok(s):
        raise Unprintable(f'{s!r} is not an identifier')
    return t_id(s)


def need_str(s):
    if not isinstance(s, str) or '"' in s:
        raise Unprintable('string with a double quote')
    return t_str(s)


# ----------------------------------------------------------------------------- expressions
def p_expr(e):
    if e['type'] in SETOPS:
        return p_expr(e['lhs']) + [t_sym(SETOPS[e['type']])] + p_parts(e['rhs'])
    return p_parts(e)

def p_parts(e):
    if e['type'] == 'collect':
        return p_parts(e['lhs']) + [t_sym('.')] + p_part(e['rhs'])
    return p_part(e)

def p_part(e):
    types = []
    while e['type'] == 'subType':
        types.insert(0, e['subType'])
        e = e['stepExpression']
    star = False
    if e['type'] == 'transitive':
        star = True
        e = e['stepExpression']
    out = p_atom(e)
    if star:
        out = out + [t_sym('*')]
    for t in types:
        out = out + [t_sym('['), need_id(t), t_sym(']')]
    return out

def p_atom(e):
    if e['type'] in ('field', 'attackStep'):
        return [need_id(e['name'])]
    if e['type'] == 'variable':
        return [need_id(e['name']), t_sym('('), t_sym(')')]
    return [t_sym('(')] + p_expr(e) + [t_sym(')')]

def p_te(t):
    if t['type'] in ('addition', 'subtraction'):
        return p_te(t['lhs']) + [t_sym(TTCOPS[t['type']])] + p_tt(t['rhs'])
    return p_tt(t)

def p_tt(t):
    if t['type'] in ('multiplication', 'division'):
        return p_tt(t['lhs']) + [t_sym(TTCOPS[t['type']])] + p_tf(t['rhs'])
    return p_tf(t)

def p_tf(t):
    if t['type'] == 'exponentiation':
        return p_ta(t['lhs']) + [t_sym('^')] + p_ta(t['rhs'])
    return p_ta(t)

def p_ta(t):
    if t['type'] == 'number':
        return [num_token(t['value'])]
    if t['type'] == 'function':
        out = [need_id(t['name'])]
        if t['arguments']:
            out.append(t_sym('('))
            for i, a in enumerate(t['arguments']):
                if i:
                    out.append(t_sym(','))
                out.append(num_token(a))
            out.append(t_sym(')'))
        return out
    return [t_sym('(')] + p_te(t) + [t_sym(')')]

def p_meta(meta):
    out = []
    for k, v in meta.items():
        out += [need_id(k), t_kw('info'), t_sym(':'), need_str(v)]
    return out

def p_exprs(l):
    out = []
    for i, e in enumerate(l):
        if i:
            out.append(t_sym(','))
        out += p_expr(e)
    return out

STEPTYPE = {'or': ('sym', '|'), 'and': ('sym', '&'), 'defense': ('sym', '#'), 'exist': ('kw', 'E'), 'notExist': ('sym', '!E')}

def p_step(s):
    out = [STEPTYPE[s['type']], need_id(s['name'])]
    for t in s['tags']:
        out += [t_sym('@'), need_id(t)]
    if s['risk'] is not None:
        letters = [l for l, k in (('C', 'isConfidentiality'), ('I', 'isIntegrity'), ('A', 'isAvailability')) if s['risk'][k]]
        if not letters:
            raise Unprintable('risk without any of C, I, A')
        out.append(t_sym('{'))
        for i, l in enumerate(letters):
            if i:
                out.append(t_sym(','))
            out.append(t_kw(l))
        out.append(t_sym('}'))
    if s['ttc'] is not None:
        out += [t_sym('[')] + p_te(s['ttc']) + [t_sym(']')]
    out += p_meta(s['meta'])
    if s['requires'] is not None:
        if not s['requires']['stepExpressions'] or s['requires']['overrides'] is not True:
            raise Unprintable('requires clause')
        out += [t_sym('<-')] + p_exprs(s['requires']['stepExpressions'])
    if s['reaches'] is not None:
        if not s['reaches']['stepExpressions']:
            raise Unprintable('empty reaches clause')
        out += [t_sym('->' if s['reaches']['overrides'] else '+>')] + p_exprs(s['reaches']['stepExpressions'])
    return out

def p_asset_block(cat, a):
    out = [t_kw('category'), need_id(cat['name'])] + p_meta(cat['meta']) + [t_sym('{')]
    if a['isAbstract']:
        out.append(t_kw('abstract'))
    out += [t_kw('asset'), need_id(a['name'])]
    if a['superAsset'] is not None:
        out += [t_kw('extends'), need_id(a['superAsset'])]
    out += p_meta(a['meta']) + [t_sym('{')]
    for v in a['variables']:
        out += [t_kw('let'), need_id(v['name']), t_sym('=')] + p_expr(v['stepExpression'])
    for s in a['attackSteps']:
        out += p_step(s)
    out += [t_sym('}'), t_sym('}')]
    return out

def p_mult(m):
    lo, hi = m['min'], m['max']
    if hi is None:
        return [t_sym('*')] if lo == 0 else [('int', str(lo)), t_sym('..'), t_sym('*')]
    if lo == hi:
        return [('int', str(lo))]
    return [('int', str(lo)), t_sym('..'), ('int', str(hi))]

def p_assoc(a):
    return ([need_id(a['leftAsset']), t_sym('['), need_id(a['leftField']), t_sym(']')] + p_mult(a['leftMultiplicity'])
            + [t_sym('<--'), need_id(a['name']), t_sym('-->')] + p_mult(a['rightMultiplicity'])
            + [t_sym('['), need_id(a['rightField']), t_sym(']'), need_id(a['rightAsset'])] + p_meta(a['meta']))

def decl_tokens(spec):
    """The declarations of a specification, one token list per declaration, in the canonical order: defines, one empty
    category block per category, one category block per asset, one associations block."""
    decls = []
    for k, v in spec['defines'].items():
        decls.append([t_sym('#'), need_id(k), t_sym(':'), need_str(v)])
    cats = {c['name']: c for c in spec['categories']}
    for c in spec['categories']:
        decls.append([t_kw('category'), need_id(c['name'])] + p_meta(c['meta']) + [t_sym('{'), t_sym('}')])
    for a in spec['assets']:
        if a['category'] not in cats:
            raise Unprintable('asset in an undeclared category')
        decls.append(p_asset_block(cats[a['category']], a))
    if spec['associations']:
        out = [t_kw('associations'), t_sym('{')]
        for a in spec['associations']:
            out += p_assoc(a)
        out.append(t_sym('}'))
        decls.append(out)
    return decls


def render(tokens, rng=None):
    """Text of a token list; token boundaries are kept apart by spaces / newlines (a random choice with rng)."""
    out = []
    for kind, text in tokens:
        s = '"' + text + '"' if kind == 'str' else text
        out.append(s)
        if rng is not None and rng.random() < 0.1:
            out.append(rng.choice(['\n', '  ', ' // note\n', ' /* c */ ']))
        elif text in ('{', '}') or kind == 'str':
            out.append('\n')
        else:
            out.append(' ')
    return ''.join(out)


# ----------------------------------------------------------------------------- Gallina terms
def c_tok(tok) -> str:
    kind, text = tok
    if kind == 'kw': return KEYWORDS[text]
    if kind == 'sym': return SYMBOLS[text]
    if kind == 'id': return f'(TId {C.cstr(text)})'
    if kind == 'str': return f'(TString {C.cstr(text)})'
    if kind == 'int': return f'(TInt {C.cstr(text)})'
    if kind == 'float': return f'(TFloat {C.cstr(text)})'
    raise ValueError(kind)


def lexer_tokens(impl_lexer_cls, token_stream_cls, input_stream):
    """Tokens produced by the real lexer as (kind, text) pairs, and the number of lexer errors."""
    raise NotImplementedError


def classify_antlr_token(parser_cls, t):
    name = parser_cls.symbolicNames[t.type]
    text = t.text
    if name in ('ABSTRACT', 'ASSET', 'ASSOCIATIONS', 'EXTENDS', 'INCLUDE', 'CATEGORY', 'INFO', 'LET', 'EXISTS', 'C', 'I', 'A'):
        return ('kw', text)
    if name == 'STRING': return ('str', text[1:-1])
    if name == 'INT': return ('int', text)
    if name == 'FLOAT': return ('float', text)
    if name == 'ID': return ('id', text)
    return ('sym', text)


# ----------------------------------------------------------------------------- ANTLR parse tree -> Mal.cmal
class TreePrinter:
    def __init__(self, P):
        self.P = P      # malParser

    def cstrs(self, l):
        return C.clist([C.cstr(x) for x in l])

    def expr(self, ctx):
        parts = ctx.parts()
        ops = [ctx.children[2 * i - 1] for i in range(1, len(parts))]
        tail = 'ENil'
        for op, p in reversed(list(zip(ops, parts[1:]))):
            o = 'OUnion' if op.UNION() else 'OInter' if op.INTERSECT() else 'ODiff'
            tail = f'(ECons {o} {self.parts(p)} {tail})'
        return f'(CE {self.parts(parts[0])} {tail})'

    def parts(self, ctx):
        ps = ctx.part()
        tail = 'DNil'
        for p in reversed(ps[1:]):
            tail = f'(DCons {self.part(p)} {tail})'
        return f'(CP {self.part(ps[0])} {tail})'

    def part(self, ctx):
        if ctx.varsubst():
            atom = f'(CVar {C.cstr(ctx.varsubst().ID().getText())})'
        elif ctx.LPAREN():
            atom = f'(CParen {self.expr(ctx.expr())})'
        else:
            atom = f'(CId {C.cstr(ctx.ID().getText())})'
        tys = [t.ID().getText() for t in ctx.type_()]
        return f'(CPart {atom} {C.cbool(ctx.STAR() is not None)} {self.cstrs(tys)})'

    def number(self, ctx):
        return f'(CInt {C.cstr(ctx.getText())})' if ctx.INT() else f'(CFloat {C.cstr(ctx.getText())})'

    def ttcexpr(self, ctx):
        terms = ctx.ttcterm()
        tail = 'TENil'
        for i in range(len(terms) - 1, 0, -1):
            plus = ctx.children[2 * i - 1].getText() == '+'
            tail = f'(TECons {C.cbool(plus)} {self.ttcterm(terms[i])} {tail})'
        return f'(TE {self.ttcterm(terms[0])} {tail})'

    def ttcterm(self, ctx):
        fs = ctx.ttcfact()
        tail = 'TTNil'
        for i in range(len(fs) - 1, 0, -1):
            star = ctx.children[2 * i - 1].getText() == '*'
            tail = f'(TTCons {C.cbool(star)} {self.ttcfact(fs[i])} {tail})'
        return f'(TT {self.ttcfact(fs[0])} {tail})'

    def ttcfact(self, ctx):
        atoms = ctx.ttcatom()
        if len(atoms) == 1:
            return f'(TF1 {self.ttcatom(atoms[0])})'
        return f'(TF2 {self.ttcatom(atoms[0])} {self.ttcatom(atoms[1])})'

    def ttcatom(self, ctx):
        if ctx.ttcdist():
            d = ctx.ttcdist()
            args = 'None' if d.LPAREN() is None else '(Some ' + C.clist([self.number(n) for n in d.number()]) + ')'
            return f'(TADist {C.cstr(d.ID().getText())} {args})'
        if ctx.ttcexpr():
            return f'(TAParen {self.ttcexpr(ctx.ttcexpr())})'
        return f'(TANum {self.number(ctx.number())})'

    def meta(self, ctx):
        return f'(mkCMeta {C.cstr(ctx.ID().getText())} {C.cstr(ctx.STRING().getText()[1:-1])})'

    def metas(self, l):
        return C.clist([self.meta(m) for m in l])

    def step(self, ctx):
        st = ctx.steptype()
        typ = 'StOr' if st.OR() else 'StAnd' if st.AND() else 'StHash' if st.HASH() else 'StExists' if st.EXISTS() else 'StNotExists'
        tags = [t.ID().getText() for t in ctx.tag()]
        cias = 'None'
        if ctx.cias():
            cs = ['CiaC' if c.C() else 'CiaI' if c.I() else 'CiaA' for c in ctx.cias().cia()]
            cias = f'(Some ({cs[0]}, {C.clist(cs[1:])}))'
        ttc = 'None' if not ctx.ttc() else f'(Some {self.ttcexpr(ctx.ttc().ttcexpr())})'
        pre = 'None'
        if ctx.precondition():
            es = [self.expr(e) for e in ctx.precondition().expr()]
            pre = f'(Some ({es[0]}, {C.clist(es[1:])}))'
        rea = 'None'
        if ctx.reaches():
            es = [self.expr(e) for e in ctx.reaches().expr()]
            rea = f'(Some ({C.cbool(ctx.reaches().INHERITS() is not None)}, ({es[0]}, {C.clist(es[1:])})))'
        return (f'(mkCStep {typ} {C.cstr(ctx.ID().getText())} {self.cstrs(tags)} {cias} {ttc} {self.metas(ctx.meta())} {pre} {rea})')

    def asset(self, ctx):
        P = self.P
        members = []
        for ch in ctx.children:
            if isinstance(ch, P.StepContext):
                members.append(f'(MStep {self.step(ch)})')
            elif isinstance(ch, P.VariableContext):
                members.append(f'(MVar (mkCVar {C.cstr(ch.ID().getText())} {self.expr(ch.expr())}))')
        ids = ctx.ID()
        ext = C.copt(ids[1].getText() if len(ids) > 1 else None, C.cstr)
        return (f'(mkCAsset {C.cbool(ctx.ABSTRACT() is not None)} {C.cstr(ids[0].getText())} {ext} {self.metas(ctx.meta())} '
                + C.clist(members) + ')')

    def mult(self, ctx):
        atoms = ctx.multatom()
        f = lambda a: 'MStar' if a.STAR() else f'(MInt {C.cstr(a.getText())})'
        return f'(mkCMult {f(atoms[0])} {C.copt(atoms[1] if len(atoms) > 1 else None, f)})'

    def association(self, ctx):
        ids = ctx.ID()
        return (f'(mkCAssoc {C.cstr(ids[0].getText())} {C.cstr(ctx.field()[0].ID().getText())} {self.mult(ctx.mult()[0])} '
                f'{C.cstr(ctx.linkname().ID().getText())} {self.mult(ctx.mult()[1])} {C.cstr(ctx.field()[1].ID().getText())} '
                f'{C.cstr(ids[1].getText())} {self.metas(ctx.meta())})')

    def mal(self, ctx):
        P = self.P
        decls = []
        for d in ctx.declaration():
            ch = d.getChild(0)
            if isinstance(ch, P.IncludeContext):
                decls.append(f'(DInclude {C.cstr(ch.STRING().getText()[1:-1])})')
            elif isinstance(ch, P.DefineContext):
                decls.append(f'(DDefine {C.cstr(ch.ID().getText())} {C.cstr(ch.STRING().getText()[1:-1])})')
            elif isinstance(ch, P.CategoryContext):
                decls.append(f'(DCategory (mkCCat {C.cstr(ch.ID().getText())} {self.metas(ch.meta())} '
                             + C.clist([self.asset(a) for a in ch.asset()]) + '))')
            else:
                decls.append('(DAssociations ' + C.clist([self.association(a) for a in ch.association()]) + ')')
        return C.clist(decls)


# ----------------------------------------------------------------------------- langspec JSON -> Mal.fspec
def c_sexpr(e) -> str:
    from . import langgen as LG
    return LG.c_sexpr(e)

def c_ttc(t) -> str:
    if t['type'] == 'number':
        return f'(TtcNum {C.cstr(repr(float(t["value"])))})'
    if t['type'] == 'function':
        return f'(TtcFun {C.cstr(t["name"])} {C.clist([C.cstr(repr(float(a))) for a in t["arguments"]])})'
    return f'(TtcBin {C.cstr(t["type"])} {c_ttc(t["lhs"])} {c_ttc(t["rhs"])})'

def c_meta(m) -> str:
    return C.clist([f'({C.cstr(k)}, {C.cstr(v)})' for k, v in m.items()])

def c_fstep(s) -> str:
    risk = 'None' if s['risk'] is None else \
        f'(Some (mkRisk {C.cbool(s["risk"]["isConfidentiality"])} {C.cbool(s["risk"]["isIntegrity"])} {C.cbool(s["risk"]["isAvailability"])}))'
    ttc = 'None' if s['ttc'] is None else f'(Some {c_ttc(s["ttc"])})'
    req = 'None' if s['requires'] is None else '(Some ' + C.clist([c_sexpr(e) for e in s['requires']['stepExpressions']]) + ')'
    rea = 'None' if s['reaches'] is None else \
        f'(Some ({C.cbool(s["reaches"]["overrides"])}, ' + C.clist([c_sexpr(e) for e in s['reaches']['stepExpressions']]) + '))'
    return (f'(mkFStep {C.cstr(s["name"])} {c_meta(s["meta"])} {C.cstr(s["type"])} {C.clist([C.cstr(t) for t in s["tags"]])} '
            f'{risk} {ttc} {req} {rea})')

def c_mval(v) -> str:
    return 'MvNone' if v is None else f'(MvInt {C.cZ(v)})' if isinstance(v, int) else f'(MvRaw {C.cstr(str(v))})'

def c_fspec(spec) -> str:
    cats = C.clist([f'(mkFCat {C.cstr(c["name"])} {c_meta(c["meta"])})' for c in spec['categories']])
    assets = C.clist([
        f'(mkFAsset {C.cstr(a["name"])} {c_meta(a["meta"])} {C.cstr(a["category"])} {C.cbool(a["isAbstract"])} '
        f'{C.copt(a["superAsset"], C.cstr)} '
        + C.clist([f'({C.cstr(v["name"])}, {c_sexpr(v["stepExpression"])})' for v in a['variables']]) + ' '
        + C.clist([c_fstep(s) for s in a['attackSteps']]) + ')' for a in spec['assets']])
    assocs = C.clist([
        f'(mkFAssoc {C.cstr(a["name"])} {c_meta(a["meta"])} {C.cstr(a["leftAsset"])} {C.cstr(a["leftField"])} '
        f'{c_mval(a["leftMultiplicity"]["min"])} {c_mval(a["leftMultiplicity"]["max"])} {C.cstr(a["rightAsset"])} '
        f'{C.cstr(a["rightField"])} {c_mval(a["rightMultiplicity"]["min"])} {c_mval(a["rightMultiplicity"]["max"])})'
        for a in spec['associations']])
    return f'(mkFSpec {c_meta(spec["defines"])} {cats} {assets} {assocs})'


# ----------------------------------------------------------------------------- random well-formed specifications
IDS = ['a', 'b', 'c', 'host', 'net', 'x1', 'y_2', 'Zed', 'q', 'info2', 'lets', 'Easy', 'Cc', 'II', 'A1', '0a', '_u', 'asset1']
TYPES = ['Aa', 'Bb', 'Cc', 'Dd', 'Node', 'T_1']


def fix_classification(e, dot_after=False):
    """Relabel names so that the compiler's rule holds: a name is an attackStep iff no '.' follows it in the expression."""
    def has_dot(x):
        k = x['type']
        if k == 'collect': return True
        if k in SETOPS: return has_dot(x['lhs']) or has_dot(x['rhs'])
        if k in ('transitive', 'subType'): return has_dot(x['stepExpression'])
        return False
    k = e['type']
    if k in ('field', 'attackStep'):
        return {'type': 'field' if dot_after else 'attackStep', 'name': e['name']}
    if k == 'variable':
        return e
    if k == 'collect':
        return {'type': k, 'lhs': fix_classification(e['lhs'], True), 'rhs': fix_classification(e['rhs'], dot_after)}
    if k in SETOPS:
        return {'type': k, 'lhs': fix_classification(e['lhs'], has_dot(e['rhs']) or dot_after), 'rhs': fix_classification(e['rhs'], dot_after)}
    if k == 'transitive':
        return {'type': k, 'stepExpression': fix_classification(e['stepExpression'], dot_after)}
    return {'type': k, 'subType': e['subType'], 'stepExpression': fix_classification(e['stepExpression'], dot_after)}


def all_fields(e):
    k = e['type']
    if k in ('field', 'attackStep'): return {'type': 'field', 'name': e['name']}
    if k == 'variable': return e
    if k == 'collect' or k in SETOPS: return {'type': k, 'lhs': all_fields(e['lhs']), 'rhs': all_fields(e['rhs'])}
    if k == 'transitive': return {'type': k, 'stepExpression': all_fields(e['stepExpression'])}
    return {'type': k, 'subType': e['subType'], 'stepExpression': all_fields(e['stepExpression'])}


class SpecGen:
    def __init__(self, rng: random.Random):
        self.rng = rng

    def raw_expr(self, depth):
        rng = self.rng
        if depth <= 0 or rng.random() < 0.25:
            return {'type': 'variable', 'name': rng.choice(IDS)} if rng.random() < 0.15 else {'type': 'field', 'name': rng.choice(IDS)}
        k = rng.choice(['collect', 'collect', 'collect', 'union', 'intersection', 'difference', 'transitive', 'subType', 'subType'])
        if k == 'collect' or k in SETOPS:
            return {'type': k, 'lhs': self.raw_expr(depth - 1), 'rhs': self.raw_expr(depth - 1)}
        if k == 'transitive':
            return {'type': k, 'stepExpression': self.raw_expr(depth - 1)}
        return {'type': k, 'subType': rng.choice(TYPES), 'stepExpression': self.raw_expr(depth - 1)}

    def ttc(self, depth):
        rng = self.rng
        if depth <= 0 or rng.random() < 0.3:
            if rng.random() < 0.35:
                return {'type': 'number', 'value': rng.choice([2.0, 0.5, 0.25, 3.0, 10.0, 0.125, 0.1, 0.01, 7.0, 1.5])}
            name = rng.choice(['Exponential', 'Bernoulli', 'Enabled', 'Disabled', 'Gamma', 'EasyAndCertain', 'Zz'])
            nargs = rng.choice([0, 0, 1, 2, 3])
            return {'type': 'function', 'name': name, 'arguments': [rng.choice([0.5, 1.0, 2.0, 0.25, 0.1, 24.0]) for _ in range(nargs)]}
        return {'type': rng.choice(list(TTCOPS)), 'lhs': self.ttc(depth - 1), 'rhs': self.ttc(depth - 1)}

    def meta(self, p=0.35):
        rng = self.rng
        out = {}
        while rng.random() < p:
            out[rng.choice(['user', 'developer', 'modeler', 'mitre', 'k_1'])] = rng.choice(
                ['text', 'T1078', 'two words', '', 'a: b, c. (d) [e] -> f', 'line one\nline two', "it's", 'tab\there', '\\/'])
        return out

    def mult(self):
        return self.rng.choice([{'min': 0, 'max': None}, {'min': 0, 'max': 1}, {'min': 1, 'max': 1}, {'min': 1, 'max': None},
                                {'min': 0, 'max': 2}, {'min': 2, 'max': 5}, {'min': 0, 'max': 0}, {'min': 3, 'max': None}])

    def step(self, names):
        rng = self.rng
        name = rng.choice([n for n in IDS if n not in names] or ['s%d' % len(names)])
        names.add(name)
        typ = rng.choice(['or', 'or', 'and', 'defense', 'exist', 'notExist'])
        risk = None
        if rng.random() < 0.3:
            fl = [rng.random() < 0.5 for _ in range(3)]
            if not any(fl):
                fl[rng.randrange(3)] = True
            risk = {'isConfidentiality': fl[0], 'isIntegrity': fl[1], 'isAvailability': fl[2]}
        requires = None
        if typ in ('exist', 'notExist') or rng.random() < 0.1:
            requires = {'overrides': True, 'stepExpressions': [all_fields(self.raw_expr(rng.randint(0, 2))) for _ in range(rng.randint(1, 2))]}
        reaches = None
        if rng.random() < 0.7:
            reaches = {'overrides': rng.random() < 0.6,
                       'stepExpressions': [fix_classification(self.raw_expr(rng.randint(0, 4))) for _ in range(rng.randint(1, 3))]}
        return {'name': name, 'meta': self.meta(0.25), 'type': typ, 'tags': [rng.choice(['hidden', 'debug', 't_1']) for _ in range(rng.choice([0, 0, 1, 2]))],
                'risk': risk, 'ttc': self.ttc(rng.randint(0, 3)) if rng.random() < 0.5 else None, 'requires': requires, 'reaches': reaches}

    def spec(self):
        rng = self.rng
        cats = [{'name': n, 'meta': self.meta(0.2)} for n in rng.sample(['System', 'Net', 'Cat_3'], rng.randint(1, 3))]
        assets = []
        tnames = rng.sample(TYPES, rng.randint(1, 4))
        for i, t in enumerate(tnames):
            names = set()
            variables = []
            for _ in range(rng.choice([0, 0, 1, 2])):
                vn = rng.choice([n for n in IDS if n not in names])
                names.add(vn)
                variables.append({'name': vn, 'stepExpression': all_fields(self.raw_expr(rng.randint(0, 3)))})
            assets.append({'name': t, 'meta': self.meta(0.25), 'category': rng.choice(cats)['name'], 'isAbstract': rng.random() < 0.2,
                           'superAsset': rng.choice(tnames[:i]) if i and rng.random() < 0.5 else None, 'variables': variables,
                           'attackSteps': [self.step(names) for _ in range(rng.randint(0, 4))]})
        assocs = []
        for _ in range(rng.randint(0, 3)):
            assocs.append({'name': rng.choice(['Pp', 'Qq', 'Link_1']), 'meta': self.meta(0.2), 'leftAsset': rng.choice(tnames),
                           'leftField': rng.choice(IDS), 'leftMultiplicity': self.mult(), 'rightAsset': rng.choice(tnames),
                           'rightField': rng.choice(IDS), 'rightMultiplicity': self.mult()})
        # the compiler removes structurally equal duplicates: keep the first of each
        dedupe = lambda l: [x for i, x in enumerate(l) if x not in l[:i]]
        return {'formatVersion': '1.0.0', 'defines': {'id': rng.choice(['org.x', 'l']), 'version': '1.0.' + str(rng.randrange(9))},
                'categories': cats, 'assets': assets, 'associations': dedupe(assocs)}
