#!/bin/bash
# usage: seed_eval.sh <property> <seed dir> <name>  — confirm a seeded change and run the check against it
P=$1; D=$2; N=$3
OUT=/verif/seeded/$N
mkdir -p $OUT
cp $D/patch.diff $OUT/patch.diff; cp $D/demo.py $OUT/demo.py; cp $D/notes.md $OUT/notes.md 2>/dev/null
cd /repo || exit 2
if ! git diff --quiet; then echo "repo dirty"; exit 2; fi
SCR=$(mktemp -d)
( cd $SCR && MAL_REPO=/repo PYTHONPATH=/repo timeout 300 /venv/bin/python $OUT/demo.py > $OUT/demo_clean.txt 2>&1 ); DC=$?
git apply $OUT/patch.diff || { echo "patch does not apply"; exit 2; }
TS=$(timeout 900 /venv/bin/python -m pytest -q -p no:cacheprovider 2>&1 | tail -1)
( cd $SCR && MAL_REPO=/repo PYTHONPATH=/repo timeout 300 /venv/bin/python $OUT/demo.py > $OUT/demo_patched.txt 2>&1 ); DP=$?
cd /verif && ./check $P --tier quick > $OUT/check_quick.txt 2>&1; CK=$?
cd /repo && git checkout -- . ; rm -rf $SCR /repo/tmp 2>/dev/null
echo "$N property=$P tests='$TS' demo_clean=$DC demo_patched=$DP check_exit=$CK $(grep -c VIOLATION $OUT/check_quick.txt) violation-lines: $(grep VIOLATION $OUT/check_quick.txt | head -2 | tr '\n' ' ')"
