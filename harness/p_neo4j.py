"""C19 — Neo4j export / import observed through a recording stand-in for py2neo.Graph: what ingest_model and
ingest_attack_graph send is compared with the model / attack graph (and with Neo.v), and get_model is run against a
stand-in that answers its two Cypher queries from what was ingested."""
from __future__ import annotations
import json, random
from . import common as C
from . import langgen as LG
from . import modelgen as MG
from . import p_modelio as PMIO
from . import p_graphio as PIO
from . import p_legacy as PLEG

IMPORTS = 'Prelude Codec ModelIO Legacy Neo'


class FakeTx:
    def __init__(self, g):
        self.g = g
    def create(self, subgraph):
        self.g.created.append(subgraph)


class FakeGraph:
    """Records what is created; answers the two queries of get_model with Cypher's semantics (relationship
    isomorphism inside one MATCH: r1 and r2 are different relationships)."""
    last = None

    def __init__(self, *a, **k):
        self.created = []
        self.deleted = 0
        FakeGraph.last = self if FakeGraph.store is None else FakeGraph.store

    store = None

    def delete_all(self):
        self.deleted += 1
    def begin(self):
        return FakeTx(self)
    def commit(self, tx):
        pass

    def run(self, query):
        src = FakeGraph.store if FakeGraph.store is not None else self
        nodes = [n for sg in src.created for n in sg.nodes]
        rels = [r for sg in src.created for r in sg.relationships]
        class R:
            def __init__(self, rows): self.rows = rows
            def data(self): return self.rows
        if 'RETURN DISTINCT a, r1, r2, b' in query:
            rows, seen = [], set()
            for r1 in rels:
                a, b = r1.start_node, r1.end_node
                if a.get('type') is None:
                    continue
                for r2 in rels:
                    if r2 is r1 or r2.start_node is not b or r2.end_node is not a:
                        continue
                    key = (id(a), id(r1), id(r2), id(b))
                    if key not in seen:
                        seen.add(key)
                        rows.append({'a': a, 'r1': r1, 'r2': r2, 'b': b})
            return R(rows)
        if 'RETURN DISTINCT a' in query:
            return R([{'a': n} for n in nodes if n.get('type') is not None])
        raise AssertionError('unexpected query: ' + query)


def sent(g):
    nodes = [n for sg in g.created for n in sg.nodes]
    rels = [r for sg in g.created for r in sg.relationships]
    return nodes, rels


def check(pid: str, tier: str, seed: int):
    rng = random.Random(seed * 86028157 + 19)
    violations, metas, cases, icases, lcases = [], [], [], [], []
    with C.Scratch():
        impl = C.import_impl()
        import maltoolbox.ingestors.neo4j as neo
        from maltoolbox.attackgraph import AttackGraph
        from maltoolbox.attackgraph.analyzers.apriori import calculate_viability_and_necessity
        neo.Graph = FakeGraph
        lgen = LG.LangGen(rng, dup_assoc_names=0.3, reuse_fields=0.4)
        n = 70 if tier == 'quick' else 800
        special = LG.parallel_field_langs() * 3
        for i in range(n + len(special)):
            L = lgen.gen() if i < n else special[i - n]
            sigs = [(a['name'], a['leftAsset'], a['rightAsset']) for a in L['associations']]
            if len(set(sigs)) != len(sigs):
                continue
            try:
                lg, lcf = MG.make_lang(impl, L)
            except Exception:
                continue
            m = MG.gen_model(impl, rng, L, lg, lcf, n_assets=(1, 6) if i < n else (6, 9), explicit_ids=0.3, link_density=0.6 if i < n else 1.0,
                             tricky_names=0.3 if i % 3 == 0 else 0.0)
            content = PMIO.content_of(m)
            pv = []
            # ---- export of the model
            FakeGraph.store = None
            try:
                neo.ingest_model(m, 'uri', 'u', 'p', 'db', delete=rng.random() < 0.5)
            except Exception as e:
                pv.append(f'ingest_model raised {type(e).__name__}')
            g = FakeGraph.last
            nodes, rels = sent(g)
            exp_nodes = sorted((str(i_), nm, t) for i_, nm, t, d, e in content[1])
            got_nodes = sorted((str(x.get('asset_id')), str(x.get('name')), str(x.get('type'))) for x in nodes)
            if got_nodes != exp_nodes or any(list(x.labels) != [x.get('type')] for x in nodes):
                pv.append('the nodes sent for a model are not one per asset with its id, name and type')
            exp_rels = []
            for cls, lf, l, rf, r, e in content[2]:
                for x in l:
                    for y in r:
                        exp_rels.append((str(x), lf, str(y)))
                        exp_rels.append((str(y), rf, str(x)))
            got_rels = sorted((str(r.start_node.get('asset_id')), type(r).__name__, str(r.end_node.get('asset_id'))) for r in rels)
            if got_rels != sorted(exp_rels):
                pv.append('the relationships sent for a model are not one per direction of each linked pair, labelled with the field names')
            # ---- import
            FakeGraph.store = g
            back = None
            try:
                back = neo.get_model('uri', 'u', 'p', 'db', lg, lcf)
                if back is None:
                    pv.append('get_model returned no model for what ingest_model sent')
            except Exception as e:
                pv.append(f'get_model raised {type(e).__name__} on what ingest_model sent')
            if back is not None:
                try:
                    lcases.append(f'({LG.c_lang(L)}, {PMIO.c_content(content)}, {PMIO.c_content(PMIO.content_of(back))})')
                except Exception:
                    pass
                ra, rl, _ = PLEG.resolved(m)
                ga, gl, _ = PLEG.resolved(back)
                if {k: v[:2] for k, v in ra.items()} != {k: v[:2] for k, v in ga.items()}:
                    pv.append('the assets read back from the database differ from the ingested ones')
                if rl != gl:
                    pv.append('the links read back from the database differ from the ingested ones')
            # ---- export of the attack graph
            FakeGraph.store = None
            try:
                ag = AttackGraph(lg, m)
                if rng.random() < 0.5:
                    calculate_viability_and_necessity(ag)
                if ag.nodes and rng.random() < 0.6:
                    ag.remove_node(rng.choice(ag.nodes))            # ids no longer equal list positions
                # type and status need not go together: a defense step without a status (as add_node accepts it), a
                # status on a step that is not a defense — what is sent follows the status, not the type
                for nd in list(ag.nodes):
                    if rng.random() < 0.15:
                        nd.defense_status = rng.choice([0.0, 1.0, 0.5]) if nd.defense_status is None else None
                neo.ingest_attack_graph(ag, 'uri', 'u', 'p', 'db')
                g2 = FakeGraph.last
                n2, r2 = sent(g2)
                expn = sorted((nd.full_name, nd.name, nd.type, str(nd.ttc), str(nd.is_necessary), str(nd.is_viable),
                               str(nd.defense_status) if nd.defense_status is not None else 'N/A') for nd in ag.nodes)
                gotn = sorted((x.get('full_name'), x.get('name'), x.get('type'), x.get('ttc'), x.get('is_necessary'), x.get('is_viable'),
                               x.get('defense_status')) for x in n2)
                if gotn != expn:
                    pv.append('the nodes sent for an attack graph are not one per attack step with its attributes')
                explab = sorted((nd.full_name, str(nd.asset.name) if nd.asset is not None else str(nd.id)) for nd in ag.nodes)
                gotlab = sorted((x.get('full_name'), ','.join(str(l) for l in x.labels)) for x in n2)
                if gotlab != explab:
                    pv.append('an attack step is not sent under the label of its asset (name of the asset, or the node id without one)')
                expe = sorted({(nd.full_name, ch.full_name) for nd in ag.nodes for ch in nd.children})
                gote = sorted((r.start_node.get('full_name'), r.end_node.get('full_name')) for r in r2)
                if gote != expe:
                    pv.append('the relationships sent for an attack graph are not one per edge')
            except Exception as e:
                pv.append(f'ingest_attack_graph raised {type(e).__name__}')
            metas.append({'prop_viol': pv, 'content': content, 'lang_assocs': [(a['name'], a['leftAsset'], a['leftField'], a['rightAsset'], a['rightField']) for a in L['associations']]})
            sent_nodes = C.clist([f'({C.cstr(str(x.get("asset_id")))}, {C.cstr(str(x.get("name")))}, {C.cstr(str(x.get("type")))})' for x in nodes])
            sent_rels = C.clist([f'({C.cstr(str(r.start_node.get("asset_id")))}, {C.cstr(type(r).__name__)}, {C.cstr(str(r.end_node.get("asset_id")))})' for r in rels])
            cases.append(f'({PMIO.c_content(content)}, {sent_nodes}, {sent_rels})')
            icases.append(f'({LG.c_lang(L)}, {PMIO.c_content(content)})')
        chk = 'Definition check (c : content * list (string * string * string) * list (string * string * string)) : bool := neo_check c.'
        bad, _, errors = C.run_cases(pid, IMPORTS, 'content * list (string * string * string) * list (string * string * string)', chk, cases, None, shard=60)
        ichk = 'Definition check (c : lang * content) : bool := neo_import_check c.'
        ibad, _, ierrors = C.run_cases(pid + 'I', IMPORTS + ' Lang LangGraph Classes', 'lang * content', ichk, icases, None, shard=40)
        lchk = 'Definition check (c : lang * content * content) : bool := neo_load_check c.'
        lbad, _, lerrors = C.run_cases(pid + 'L', IMPORTS + ' Lang LangGraph Classes Model ModelOps ModelLoad', 'lang * content * content', lchk, lcases, None, shard=40)
        bad = bad + ibad + lbad
        errors = errors + ierrors + lerrors
    if errors:
        violations.append({'message': 'the correspondence could not be evaluated', 'cause': 'coq-error', 'correspondence': 'corr_C19_export', 'errors': errors[:3]})
    by_cause = {}
    for m in metas:
        for v in m['prop_viol']:
            by_cause.setdefault(v, []).append(m)
    for cause, ms in sorted(by_cause.items()):
        m = min(ms, key=lambda x: len(x['content'][1]) + len(x['content'][2]))
        violations.append({'message': cause, 'cause': cause, 'failing_input_found': True, 'content': m['content'], 'language_associations': m['lang_assocs'],
                           'cases_violating': len(ms)})
    if bad and not by_cause:
        violations.append({'message': 'implementation and model disagree; no input found on which the property itself fails',
                           'cause': 'model-mismatch', 'correspondence': 'corr_C19_export (Neo.neo_check)', 'mismatching_cases': len(bad)})
    nontriv = {json.dumps(m['content'], default=str) for m in metas if len(m['content'][2]) >= 2}
    cov = {'evaluations': len(cases) + len(icases) + len(lcases), 'import_rebuild_cases': len(lcases), 'distinct_nontrivial': len(nontriv),
           'rule': 'random languages (inheritance, shared association names) and models (explicit / negative ids, links between sub-types, self links, '
                   'several associations between one pair of assets); ingest_model, get_model and ingest_attack_graph run against a recording '
                   'stand-in for py2neo.Graph that answers the two queries of get_model from what was created; non-trivial = two or more associations',
           'samples': [metas[0]['content']] if metas else [], 'mismatches': len(bad), 'exhaustive': False}
    return {'violations': violations, 'coverage': cov,
            'trusted': ['py2neo Node / Relationship / Subgraph objects are used as they are; the stand-in implements Graph.begin / create / commit / '
                        'delete_all / run for the two fixed queries with Cypher semantics (distinct relationships inside one MATCH) — no database runs'],
            'assumptions': ['field names are unique per asset type and no field is called firstSteps',
                            'theorems are about the Gallina model; the model is tied to the code by this run only']}


def replay(pid, path):
    print(json.dumps(json.load(open(path)), indent=1, default=str)[:8000])
    return 0
