"""Correspondence + verdict for the attack-graph history family (C09 C11 C12 C13 C14; C08 uses the
same world with fresh labels). One history = one case; the Coq side runs GraphOps.obs_run."""
from __future__ import annotations
import itertools, json, random, time
from . import common as C
from . import graphworld as GW

W_BASE = {'add_node': 2, 'remove_node': 2, 'link': 3, 'add_att': 2, 'remove_att': 2, 'compromise': 4,
          'undo': 3, 'attach': 1, 'calc': 1, 'prune': 1, 'set_flags': 1, 'copy': 1, 'q_surface': 1,
          'q_trav': 1, 'q_defsurface': 0.3, 'q_enabled': 0.3, 'q_update': 1, 'set_ttc': 0.3,
          'set_tags': 0.3, 'set_extras': 0.3}

PROFILES = {
    'C08': dict(weights={**{k: 0 for k in W_BASE}, 'reorder': 1, 'compromise': 1}, n_nodes=(2, 7), n_links=(1, 14), n_atts=(0, 2),
                n_steps=(0, 3), fresh=True),
    'C09': dict(weights=W_BASE, n_steps=(2, 14)),
    'C11': dict(weights={**{k: 0 for k in W_BASE}, 'compromise': 6, 'undo': 5, 'add_att': 2, 'remove_att': 3,
                         'attach': 2, 'remove_node': 0.5, 'add_node': 0.5, 'link': 0.5, 'copy': 0.3},
                n_nodes=(3, 8), n_atts=(1, 3), n_steps=(3, 14), bad_ids=0.0),
    'C12': dict(weights={**{k: 0 for k in W_BASE}, 'q_surface': 3, 'q_trav': 4, 'q_update': 4, 'q_defsurface': 1,
                         'q_enabled': 1, 'compromise': 3, 'undo': 1, 'set_flags': 3, 'set_tags': 1, 'calc': 0.5, 'copy': 0.8},
                n_nodes=(3, 8), n_links=(2, 12), n_atts=(1, 3), n_steps=(3, 12)),
    'C13': dict(weights={**{k: 0 for k in W_BASE}, 'prune': 4, 'set_flags': 4, 'calc': 2, 'compromise': 1,
                         'link': 1, 'q_surface': 0.5, 'copy': 0.7},
                n_nodes=(3, 9), n_links=(2, 12), n_atts=(0, 2), n_steps=(2, 8)),
    'C14': dict(weights={**{k: 0 for k in W_BASE}, 'copy': 4, 'set_ttc': 2, 'set_tags': 2, 'set_extras': 2,
                         'compromise': 2, 'undo': 1, 'link': 1, 'remove_node': 1, 'add_node': 1, 'set_flags': 1,
                         'remove_att': 0.5, 'calc': 0.5, 'prune': 0.5, 'attach': 1.5},
                n_nodes=(2, 6), n_links=(1, 8), n_atts=(0, 2), n_steps=(3, 10)),
}


# --------------------------------------------------------------------------- property predicates on the implementation

def _is(x, l):
    return any(x is y for y in l)

def wf_violations(w: GW.World) -> list[str]:
    """C09's structural consistency, evaluated on the implementation's live objects."""
    g = w.graph
    out = []
    for n in g.nodes:
        for c in n.children:
            if not _is(c, g.nodes): out.append(f'child of {n.full_name} not in graph')
            elif not _is(n, c.parents): out.append(f'child link {n.full_name}->{c.full_name} not mirrored')
        for p in n.parents:
            if not _is(p, g.nodes): out.append(f'parent of {n.full_name} not in graph')
            elif not _is(n, p.children): out.append(f'parent link {p.full_name}->{n.full_name} not mirrored')
        for a in n.compromised_by:
            if not _is(a, g.attackers): out.append(f'{n.full_name} compromised by attacker not in graph')
        if g._id_to_node.get(n.id) is not n: out.append(f'id lookup of {n.id} does not return the node')
        if g._full_name_to_node.get(n.full_name) is not n: out.append(f'name lookup of {n.full_name} does not return the node')
    if len(g._id_to_node) != len(g.nodes): out.append('id index size differs from node list')
    if len(g._full_name_to_node) != len(g.nodes): out.append('name index size differs from node list')
    if len({n.id for n in g.nodes}) != len(g.nodes): out.append('duplicate node ids')
    for a in g.attackers:
        for n in list(a.entry_points) + list(a.reached_attack_steps):
            if not _is(n, g.nodes): out.append(f'attacker {a.name} refers to a node not in graph')
        if g._id_to_attacker.get(a.id) is not a: out.append(f'attacker id lookup of {a.id} wrong')
    if len(g._id_to_attacker) != len(g.attackers): out.append('attacker index size differs from attacker list')
    return out

def mirror_violations(w: GW.World, removed=()) -> list[str]:
    """C11: attacker.reached_attack_steps and node.compromised_by mirror each other — for every attacker and node
    object the history created, whether or not it is (still) part of the graph; `removed` = the attackers that were
    removed from the graph and not added again: no node may list one of them."""
    g = w.graph
    out = []
    for n in w.nodes:
        for a in n.compromised_by:
            if _is(n, g.nodes) and _is(a, removed):
                out.append(f'{n.full_name} lists an attacker that was removed from the graph')
            if not _is(n, a.reached_attack_steps): out.append(f'{n.full_name} lists {a.name} but is not reached by it')
        if len({id(a) for a in n.compromised_by}) != len(n.compromised_by):
            out.append(f'{n.full_name} lists an attacker twice')
    for a in w.atts:
        for n in a.reached_attack_steps:
            if not _is(a, n.compromised_by): out.append(f'{a.name} reached {n.full_name} which does not list it')
        if len({id(n) for n in a.reached_attack_steps}) != len(a.reached_attack_steps):
            out.append(f'{a.name} lists a node as reached twice')
    return out

def attach_violations(w: GW.World, infos, before: int, names_before: dict) -> list[str]:
    """C11: one new graph attacker per model attacker; entry points = reached = the existing nodes named."""
    out = []
    new = w.graph.attackers[before:]
    if len(new) != len(infos):
        return [f'attach_attackers created {len(new)} attackers for {len(infos)} model attackers']
    for a, (name, eps) in zip(new, infos):
        exp = []
        for an, steps in eps:
            for stp in steps:
                n = names_before.get(an + ':' + stp)
                if n is not None and not _is(n, exp):
                    exp.append(n)
        if a.name != name: out.append('attached attacker has the wrong name')
        if len(a.reached_attack_steps) != len(exp) or any(x is not y for x, y in zip(a.reached_attack_steps, exp)):
            out.append('reached steps of an attached attacker are not the existing nodes named by its entry points')
        if len(a.entry_points) != len(exp) or any(x is not y for x, y in zip(a.entry_points, exp)):
            out.append('entry points of an attached attacker are not the existing nodes named by the model')
    return out


# --------------------------------------------------------------------------- streams

def exhaustive_ops_C11(depth: int):
    """All sequences of `depth` operations over a tiny universe, after a fixed prelude:
    3 nodes (one per asset), 2 attackers added to the graph."""
    def sp(i):
        return {'type': ['or', 'and', 'or'][i], 'name': f's{i}', 'ttc': None, 'asset': f'a{i}', 'def': None,
                'exist': None, 'viable': True, 'necessary': True, 'mitre': None, 'tags': [], 'extras': {}}
    prelude = []
    for i in range(3):
        prelude += [('new', sp(i)), ('add_node', i, None)]
    prelude += [('link', 0, 1), ('link', 1, 2), ('new_att', 'alice'), ('add_att', 0, None, [0, 1], [0]),
                ('new_att', 'bob'), ('add_att', 1, None, [], [])]
    alphabet = []
    for a in range(2):
        for o in range(3):
            alphabet.append(('compromise', a, o, bool((a + o) % 2)))
            alphabet.append(('undo', a, o, bool((a + o + 1) % 2)))
        alphabet.append(('remove_att', a))
    alphabet.append(('remove_node', 1))
    alphabet.append(('attach', [('mallory', [('a0', ['s0']), ('a2', ['s2', 'zz'])])]))
    return prelude, alphabet


def exhaustive_C08(n, stride):
    """Every graph on n nodes over type x (status) x {no TTC, TTC distribution} x every edge set (self-loops
    included), analysed in list order; `stride` keeps every stride-th one (1 = all)."""
    variants = []
    for t in GW.TYPES:
        sts = [(None, None)]
        if t == 'defense': sts = [(0.0, None), (1.0, None), (0.5, None)]
        if t in ('exist', 'notExist'): sts = [(None, True), (None, False)]
        for d, e in sts:
            for ttc in (None, GW.TTCS[3]):
                variants.append((t, d, e, ttc))
    pairs = [(p, c) for p in range(n) for c in range(n)]
    k = 0
    for combo in itertools.product(variants, repeat=n):
        for mask in range(1 << len(pairs)):
            k += 1
            if k % stride:
                continue
            ops = []
            for i, (t, d, e, ttc) in enumerate(combo):
                ops.append(('new', {'type': t, 'name': f's{i}', 'ttc': ttc, 'asset': 'a', 'def': d, 'exist': e,
                                    'viable': True, 'necessary': True, 'mitre': None, 'tags': [], 'extras': {}}))
                ops.append(('add_node', i, None))
            for j, (p, c) in enumerate(pairs):
                if mask >> j & 1:
                    ops.append(('link', p, c))
            ops.append(('calc',))
            yield ops


def fans_C08():
    """Every fan: a defense (enabled / disabled) with two children (or / and, with or without a TTC distribution), linked in
    either order, and a grandchild (or / and) below the first, the second or both — the shapes on which the order in which
    the propagation visits pending steps matters."""
    def sp(i, t, d, ttc):
        return {'type': t, 'name': f's{i}', 'ttc': ttc, 'asset': 'a', 'def': d, 'exist': None,
                'viable': True, 'necessary': True, 'mitre': None, 'tags': [], 'extras': {}}
    kids = [(t, ttc) for t in ('or', 'and') for ttc in (None, GW.TTCS[3])]
    for d in (0.0, 1.0):
        for (t1, c1), (t2, c2) in itertools.product(kids, repeat=2):
            for tg in ('or', 'and'):
                for order in ((1, 2), (2, 1)):
                    for below in ((1,), (2,), (1, 2)):
                        ops = [('new', sp(0, 'defense', d, None)), ('add_node', 0, None), ('new', sp(1, t1, None, c1)), ('add_node', 1, None),
                               ('new', sp(2, t2, None, c2)), ('add_node', 2, None), ('new', sp(3, tg, None, None)), ('add_node', 3, None)]
                        ops += [('link', 0, k) for k in order] + [('link', k, 3) for k in below] + [('calc',)]
                        yield ops


def churn_C12(impl, rng):
    """Defense queries before and after the graph's defenses are exchanged with the node count unchanged: a query, a defense
    removed and another added (or its tags / the other way round), the queries again."""
    g = GW.Gen(impl, rng, {k: 0 for k in W_BASE})
    def defense(status):
        i = g.nnames
        g.nnames += 1
        sp = GW.rand_spec(rng, i)
        sp.update({'type': 'defense', 'name': f's{i}', 'def': status, 'ttc': None, 'tags': rng.choice([[], [], ['suppress']])})   # fresh full name (guard of add_node)
        g.do(('new', sp))
        h = len(g.w.nodes) - 1
        g.do(('add_node', h, None))
        return h
    g.build(rng.randint(1, 3), rng.randint(0, 3), rng.randint(0, 1))
    ds = [defense(rng.choice([0.0, 1.0, 0.5])) for _ in range(rng.randint(1, 3))]
    for _ in range(rng.randint(1, 3)):
        g.do((rng.choice(['q_defsurface', 'q_enabled']),))
        live = [h for h in ds if h in g.in_graph()]
        if live and rng.random() < 0.8:
            g.do(('remove_node', rng.choice(live)))
        ds.append(defense(rng.choice([0.0, 1.0, 0.25])))
        g.do(('q_defsurface',))
        g.do(('q_enabled',))
    return g.ops


def guarded_prefix(impl, prelude, seq):
    """Keep the longest prefix of seq whose operations are applicable (handles live in the graph)."""
    w = GW.World(impl)
    ops = []
    for op in prelude:
        w.apply(op)
        ops.append(op)
    for op in seq:
        k = op[0]
        ing = [w.nh(n) for n in w.graph.nodes]
        ats = [w.ah(a) for a in w.graph.attackers]
        ok = True
        if k in ('compromise', 'undo'):
            ok = op[1] in ats and op[2] in ing
        elif k == 'remove_att':
            ok = op[1] in ats
        elif k == 'remove_node':
            ok = op[1] in ing
        if not ok:
            break
        w.apply(op)
        ops.append(op)
    return ops


def make_cases(pid: str, impl, tier: str, seed: int):
    rng = random.Random(seed * 7919 + sum(map(ord, pid)))
    prof = PROFILES[pid]
    n_random = {'quick': 450, 'thorough': 6000}[tier]
    histories = []
    if pid == 'C11':
        # an attacker added with entry points only (no reached steps given), then attackers attached from a model: the
        # attached attackers reach exactly what their own entry points name
        for _ in range(40 if tier == 'quick' else 400):
            g = GW.Gen(impl, rng, {k: 0 for k in W_BASE})
            g.build(rng.randint(3, 6), rng.randint(0, 5), 0)
            ids = list(g.w.graph._id_to_node.keys())
            for _k in range(rng.randint(1, 2)):
                g.do(('new_att', rng.choice(['alice', 'bob'])))
                g.do(('add_att', len(g.w.atts) - 1, None, [], rng.sample(ids, min(len(ids), rng.randint(1, 2)))))
            names = list(g.w.graph._full_name_to_node.keys())
            infos = []
            for _k in range(rng.randint(1, 2)):
                eps = []
                for fn in rng.sample(names, min(len(names), rng.randint(0, 2))):
                    an, _, stp = fn.rpartition(':')
                    eps.append((an, [stp]))
                infos.append((rng.choice(['mallory', 'trent']), eps))
            g.do(('attach', infos))
            histories.append(('entry-then-attach', g.ops))
    # corpus first
    for h in load_corpus(pid):
        histories.append(('corpus', h))
    # bounded-exhaustive stream
    if pid == 'C11':
        depth = 2 if tier == 'quick' else 3
        prelude, alphabet = exhaustive_ops_C11(depth)
        seen = set()
        for seq in itertools.product(alphabet, repeat=depth):
            ops = guarded_prefix(impl, prelude, seq)
            key = json.dumps(ops, default=str)
            if key not in seen:
                seen.add(key)
                histories.append(('exhaustive', ops))
    if pid == 'C08':
        for ops in exhaustive_C08(2, 8 if tier == 'quick' else 1):
            histories.append(('exhaustive', ops))
        for ops in fans_C08():
            histories.append(('fans', ops))
    if pid == 'C12':
        for _ in range(60 if tier == 'quick' else 600):
            histories.append(('churn', churn_C12(impl, rng)))
    for _ in range(n_random):
        kw = {k: v for k, v in prof.items() if k != 'weights'}
        ops = GW.gen_history(impl, rng, prof['weights'], **kw)
        if pid == 'C08':
            ops = ops + [('calc',)]
        histories.append(('random', ops))
    return histories


def load_corpus(pid):
    import os
    d = os.path.join(C.VERIF, 'corpus', pid)
    out = []
    if os.path.isdir(d):
        for f in sorted(os.listdir(d)):
            if f.endswith('.json'):
                ops = json.load(open(os.path.join(d, f)))['ops']
                out.append([tuple(o) for o in ops])
    return out


def nontrivial(pid, ops, outs, obs) -> bool:
    kinds = {o[0] for o in ops}
    og, on, oa = obs
    if pid == 'C08':
        return 'calc' in kinds and any(not (n[4] and n[5]) for n in on)
    if pid == 'C11':
        return any(a[2] for a in oa) and bool(kinds & {'undo', 'remove_att', 'attach'})
    if pid == 'C12':
        return any(isinstance(r[1], list) and r[1] for r in outs)
    if pid == 'C13':
        return 'prune' in kinds and any(not (n[4] and n[5]) for n in on)
    if pid == 'C14':
        return 'copy' in kinds and len(on) > 2
    return len(og[0]) > 0 and len(kinds) > 3



# --------------------------------------------------------------------------- per-step property predicates (verdicts)

def _trav(n, a):
    if not n.is_viable:
        return False
    if n.type == 'or':
        return True
    if n.type == 'and':
        return all((not p.is_necessary) or _is(a, p.compromised_by) for p in n.parents)
    return False

def _surface(w, a):
    out = set()
    for r in a.reached_attack_steps:
        for c in r.children:
            if _trav(c, a):
                out.add(w.nh(c))
    return out

def _prunable(n):
    return n.type in ('or', 'and') and (not n.is_viable or not n.is_necessary)

def _dist(n):
    return bool(n.ttc and 'name' in n.ttc and n.ttc['name'] not in ['Enabled', 'Disabled'])

def gfp_labels(nodes):
    """Greatest solution of the viability / necessity equations by downward iteration from 'all true'."""
    v = {id(n): True for n in nodes}
    nc = {id(n): True for n in nodes}
    def ev(n):
        if n.type == 'exist': return bool(n.existence_status)
        if n.type == 'notExist': return not n.existence_status
        if n.type == 'defense': return n.defense_status != 1.0
        if n.type == 'or': return True if not n.parents else any(v[id(p)] for p in n.parents)
        return all(v[id(p)] for p in n.parents)
    def en(n):
        if n.type == 'exist': return not n.existence_status
        if n.type == 'notExist': return bool(n.existence_status)
        if n.type == 'defense': return n.defense_status != 0.0
        c = [nc[id(p)] or _dist(p) for p in n.parents]
        if n.type == 'or': return all(c)
        return True if not c else any(c)
    changed = True
    while changed:
        changed = False
        for n in nodes:
            a, b = ev(n), en(n)
            if v[id(n)] and not a: v[id(n)] = False; changed = True
            if nc[id(n)] and not b: nc[id(n)] = False; changed = True
    return v, nc

HANDLE_ARGS = {'add_node': [1], 'remove_node': [1], 'link': [1, 2], 'compromise': [2], 'undo': [2],
               'set_flags': [1], 'set_ttc': [1], 'set_tags': [1], 'set_extras': [1]}


def run_with_predicates(pid, impl, ops, per_case_timeout=10, keep_world=False):
    """Run a history on the implementation, evaluating the property on the live objects after each step.
    Returns meta dict: outs, obs, prop_viol [(step, message)], aliased."""
    import signal
    w = GW.World(impl)
    outs, viol = [], []
    removed_atts = []        # C11: attackers removed from the graph and not added again
    boundary = None          # first handle of the most recent copy
    old = signal.signal(signal.SIGALRM, GW._alarm)
    signal.alarm(per_case_timeout)
    try:
        for i, op in enumerate(ops):
            k = op[0]
            pre = None
            if pid in ('C12',) and k.startswith('q_'):
                pre = w.obs()
            if pid == 'C13' and k == 'prune':
                pre = {'keep': [w.nh(n) for n in w.graph.nodes if not _prunable(n)],
                       'labels': {w.nh(n): (n.is_viable, n.is_necessary) for n in w.graph.nodes},
                       'wf': wf_violations(w)}
            if pid == 'C14' and boundary is not None:
                touched = [op[j] for j in HANDLE_ARGS.get(k, [])]
                if k in HANDLE_ARGS and all(h >= boundary[0] for h in touched) or k in ('calc', 'prune', 'remove_att', 'attach'):
                    pre = w.obs()
            if pid == 'C11' and k == 'attach':
                pre = (len(w.graph.attackers), dict(w.graph._full_name_to_node))
            if pid == 'C14' and k == 'copy':
                pre = (w.graph, w.graph._to_dict(), w.graph.next_node_id, w.graph.next_attacker_id,
                       sorted(w.graph._id_to_node), sorted(w.graph._full_name_to_node), sorted(w.graph._id_to_attacker),
                       [(n.id, [c.id for c in n.children], [q.id for q in n.parents], [a.id for a in n.compromised_by]) for n in w.graph.nodes],
                       [(a.id, [n.id for n in a.entry_points], [n.id for n in a.reached_attack_steps]) for a in w.graph.attackers])
                # side experiment (not part of the history): an asset of the shared model is renamed after the nodes were
                # added; a copy taken now must still answer the lookups as the original does
                named = [a for a in w.assets.values() if any(n.asset is a for n in w.graph.nodes)]
                if named:
                    import copy as _copy
                    a0 = named[0]
                    old_name = a0.name
                    a0.name = old_name + '~renamed'
                    try:
                        extra = _copy.deepcopy(w.graph)
                        for key in sorted(set(w.graph._full_name_to_node) | set(extra._full_name_to_node)):
                            o, c = w.graph.get_node_by_full_name(key), extra.get_node_by_full_name(key)
                            if (o is None) != (c is None) or (o is not None and o.id != c.id):
                                viol.append((i, 'after an asset was renamed, a deep copy answers a lookup by full name differently from the original'))
                                break
                    except Exception as e:
                        viol.append((i, f'deep copy raised {type(e).__name__} after an asset was renamed'))
                    finally:
                        a0.name = old_name
            oc, ret = w.apply(op)
            outs.append([oc, ret])
            if pid == 'C08' and k == 'calc' and oc == 0:
                v, nc = gfp_labels(w.graph.nodes)
                for n in w.graph.nodes:
                    if bool(n.is_viable) != v[id(n)]:
                        viol.append((i, f'viability of a node of type {n.type} is not the greatest fixed point'))
                    if bool(n.is_necessary) != nc[id(n)]:
                        viol.append((i, f'necessity of a node of type {n.type} is not the greatest fixed point'))
            if pid == 'C09':
                for m in wf_violations(w):
                    viol.append((i, m))
            elif pid == 'C11':
                if k == 'remove_att' and oc == 0 and not _is(w.atts[op[1]], removed_atts):
                    removed_atts.append(w.atts[op[1]])
                if k == 'add_att':
                    removed_atts[:] = [x for x in removed_atts if x is not w.atts[op[1]]]
                if k == 'copy':
                    removed_atts[:] = []
                for m in mirror_violations(w, removed_atts):
                    viol.append((i, m))
                if k == 'attach' and oc == 0:
                    for m in attach_violations(w, op[1], pre[0], pre[1]):
                        viol.append((i, m))
                if k == 'attach' and oc != 0 and all(name for name, _ in op[1]):
                    # (a model attacker without a name is refused by design)
                    viol.append((i, 'attach_attackers raised instead of creating one attacker per model attacker'))
            elif pid == 'C12' and oc == 0 and k.startswith('q_'):
                if w.obs() != pre:
                    viol.append((i, f'{k} changed the graph'))
                if k == 'q_trav' and ret != _trav(w.nodes[op[2]], w.atts[op[1]]):
                    viol.append((i, 'is_node_traversable_by_attacker differs from its definition'))
                if k == 'q_surface':
                    if len(set(ret)) != len(ret): viol.append((i, 'attack surface has duplicates'))
                    if set(ret) != _surface(w, w.atts[op[1]]): viol.append((i, 'attack surface differs from its definition'))
                if k == 'q_update':
                    if len(set(ret)) != len(ret): viol.append((i, 'updated attack surface has duplicates'))
                    if set(ret) != _surface(w, w.atts[op[1]]): viol.append((i, 'incremental attack surface differs from the recomputed one'))
                if k == 'q_defsurface':
                    exp = [w.nh(n) for n in w.graph.nodes if n.type == 'defense' and 'suppress' not in n.tags and n.defense_status != 1.0]
                    if sorted(ret) != sorted(exp): viol.append((i, 'defense surface differs from its definition'))
                if k == 'q_enabled':
                    exp = [w.nh(n) for n in w.graph.nodes if n.type == 'defense' and 'suppress' not in n.tags and n.defense_status == 1.0]
                    if sorted(ret) != sorted(exp): viol.append((i, 'enabled defenses differ from their definition'))
            elif pid == 'C13' and k == 'prune' and oc != 0:
                if not pre['wf']:
                    viol.append((i, 'pruning a coherent graph raised'))
            elif pid == 'C13' and k == 'prune' and oc == 0:
                now = [w.nh(n) for n in w.graph.nodes]
                if any(_prunable(n) for n in w.graph.nodes): viol.append((i, 'a prunable node survived pruning'))
                if now != pre['keep']: viol.append((i, 'pruning removed or reordered a node that is not prunable'))
                for n in w.graph.nodes:
                    if pre['labels'].get(w.nh(n)) != (n.is_viable, n.is_necessary): viol.append((i, 'pruning changed a label'))
                if not pre['wf']:
                    for m in wf_violations(w): viol.append((i, 'after pruning: ' + m))
            elif pid == 'C14':
                if k == 'copy' and oc == 0:
                    boundary = (len(w.nodes) - len(w.graph.nodes), len(w.atts) - len(w.graph.attackers))
                    for al in w.aliased(): viol.append((i, f'mutable data shared between nodes {al}'))
                    g2 = w.graph
                    if g2._to_dict() != pre[1]: viol.append((i, 'the copy does not serialize like the original'))
                    if [(n.id, [c.id for c in n.children], [q.id for q in n.parents], [a.id for a in n.compromised_by]) for n in g2.nodes] != pre[7]:
                        viol.append((i, 'the child / parent / compromised-by lists of the copy are not those of the original'))
                    if [(a.id, [n.id for n in a.entry_points], [n.id for n in a.reached_attack_steps]) for a in g2.attackers] != pre[8]:
                        viol.append((i, 'the entry points / reached steps of the copied attackers are not those of the original'))
                    if (g2.next_node_id, g2.next_attacker_id) != (pre[2], pre[3]): viol.append((i, 'the copy has different id counters'))
                    if (sorted(g2._id_to_node), sorted(g2._full_name_to_node), sorted(g2._id_to_attacker)) != (pre[4], pre[5], pre[6]):
                        viol.append((i, 'the copy answers different lookups'))
                    if g2.model is not pre[0].model or g2.lang_graph is not pre[0].lang_graph:
                        viol.append((i, 'the copy does not share the model / the language'))
                    for m in wf_violations(w): viol.append((i, 'copy: ' + m))
                elif pre is not None and boundary is not None:
                    post = w.obs()
                    if post[1][:boundary[0]] != pre[1][:boundary[0]] or post[2][:boundary[1]] != pre[2][:boundary[1]]:
                        viol.append((i, f'{k} on the copy changed the original'))
    except GW.Timeout:
        outs.append([6, None])
    finally:
        signal.alarm(0)
        signal.signal(signal.SIGALRM, old)
    res = {'ops': ops, 'outs': outs, 'obs': w.obs(), 'prop_viol': viol}
    if keep_world:
        res['world'] = w
    return res


def _shrink(pid, impl, ops, pred):
    """Greedy removal of single operations while pred(meta) stays true."""
    cur = list(ops)
    changed = True
    budget = 400
    while changed and budget > 0:
        changed = False
        for i in range(len(cur) - 1, -1, -1):
            cand = cur[:i] + cur[i + 1:]
            budget -= 1
            try:
                m = run_with_predicates(pid, impl, cand)
            except Exception:
                continue
            if pred(m):
                cur = cand
                changed = True
                break
    return cur


def rejected_adds_C11(impl, rng, tier):
    """C11: a guarded history, then add_attacker calls taken as they are — ids that no node has (after valid ones, so
    that the call fails half-way), the same attacker added again with corrected ids, an attacker that was removed before.
    Returns (cases for GraphMirror.obs_run_then_adds, metas)."""
    cases, metas = [], []
    prof = PROFILES['C11']
    for _ in range(120 if tier == 'quick' else 1500):
        kw = {k: v for k, v in prof.items() if k not in ('weights', 'bad_ids')}
        weights = {**prof['weights'], 'copy': 0}
        ops = GW.gen_history(impl, rng, weights, **kw)
        m = run_with_predicates('C11', impl, ops, keep_world=True)
        w = m.pop('world')
        g = w.graph
        adds, aouts, viol = [], [], list(m['prop_viol'])
        ids = list(g._id_to_node.keys())
        fresh = None
        for j in range(rng.randint(1, 3)):
            out = [h for h in range(len(w.atts)) if not _is(w.atts[h], g.attackers)]
            if fresh is None or not out or rng.random() < 0.4:
                w.apply(('new_att', rng.choice(['eve', 'zed'])))
                ops = ops + [('new_att', w.atts[-1].name)]
                m['outs'].append([0, None])
                h = fresh = len(w.atts) - 1
            else:
                h = rng.choice(out)
            reached = rng.sample(ids, min(len(ids), rng.randrange(0, 3))) if ids else []
            entry = list(reached[:rng.randrange(0, len(reached) + 1)])
            if rng.random() < 0.6:
                unknown = max(ids + [0]) + rng.randint(1, 4)
                if rng.random() < 0.6: reached = reached + [unknown]
                else: entry = entry + [unknown]
            aid = rng.choice([None, None, g.next_attacker_id + 1] + list(g._id_to_attacker.keys())[:1])
            call = (h, aid, reached, entry)
            oc, _ = w.apply(('add_att',) + call)
            adds.append(call)
            aouts.append(oc)
            for msg in mirror_violations(w):
                viol.append((len(ops) + j, msg + ' (after add_attacker' + (' was rejected' if oc else '') + ')'))
        obs = w.obs()
        zl = lambda l: C.clist([C.cZ(int(x)) for x in l])
        cadds = C.clist([f'({h}, {C.copt(i, C.cZ)}, {zl(r)}, {zl(e)})' for h, i, r, e in adds])
        cases.append('(' + C.clist([GW.c_op(o) for o in ops]) + ',\n  ' + cadds + ',\n  ' + C.cjv([m['outs'], aouts, obs]) + ')')
        metas.append({'ops': ops, 'adds': adds, 'outs': m['outs'], 'add_outs': aouts, 'obs': obs, 'prop_viol': viol, 'stream': 'rejected-adds'})
    return cases, metas


def check(pid: str, tier: str, seed: int):
    t0 = time.time()
    violations = []
    with C.Scratch():
        impl = C.import_impl()
        hist = make_cases(pid, impl, tier, seed)
        cases, metas, opcount, streams = [], [], {}, {}
        import logging
        mt_logger = logging.getLogger('maltoolbox')
        for hi, (stream, ops) in enumerate(hist):
            # C13: every fourth history runs with the library's logger at DEBUG (what the library logs must not matter)
            debug = pid == 'C13' and hi % 4 == 3
            old_level = mt_logger.level
            old_disable = logging.root.manager.disable
            if debug:
                logging.disable(logging.NOTSET)
                mt_logger.setLevel(logging.DEBUG)
                stream = stream + '+debug-log'
            try:
                m = run_with_predicates(pid, impl, ops)
            finally:
                if debug:
                    mt_logger.setLevel(old_level)
                    logging.disable(old_disable)
            m['stream'] = stream
            cases.append(GW.c_case(ops, m['outs'], m['obs']))
            metas.append(m)
            streams[stream] = streams.get(stream, 0) + 1
            for o in ops:
                opcount[o[0]] = opcount.get(o[0], 0) + 1
        bad, counters, errors = C.run_cases(pid, GW.IMPORTS, GW.CASE_TYPE, GW.CHECK_DEF, cases, GW.EXTRA)
        guards = counters.get('GUARDS', 0)
        abad, ametas = [], []
        if pid == 'C11':
            acases, ametas = rejected_adds_C11(impl, random.Random(seed * 104729 + 11), tier)
            abad, _, aerrors = C.run_cases('C11A', GW.IMPORTS + ' GraphMirror', 'list op * list add_call * jv',
                                           'Definition check (c : list op * list add_call * jv) : bool := '
                                           'let \'(ops, adds, o) := c in jv_eqb (obs_run_then_adds ops adds) o.', acases, None, shard=60)
            errors = errors + aerrors
        if errors:
            violations.append({'message': 'the correspondence could not be evaluated', 'cause': 'coq-error',
                               'correspondence': f'corr_{pid}_obs_run', 'errors': errors[:3]})
        # cases on which the implementation itself breaks the property (whether or not the model agrees)
        propbad = [i for i, m in enumerate(metas) if m['prop_viol']]
        reported = False
        for i in (propbad[:1] if propbad else []):
            m = metas[i]
            first = m['prop_viol'][0][1]
            small = _shrink(pid, impl, m['ops'], lambda mm: any(v[1] == first for v in mm['prop_viol']))
            ms = run_with_predicates(pid, impl, small)
            # the shrunk history must still be a guarded one, otherwise keep the original
            b2, c2, e2 = C.run_cases(pid + '_shrink', GW.IMPORTS, GW.CASE_TYPE, GW.CHECK_DEF,
                                     [GW.c_case(small, ms['outs'], ms['obs'])], GW.EXTRA)
            if e2 or c2.get('GUARDS', 0) != 1:
                small, ms = m['ops'], m
            violations.append({'message': first, 'cause': first, 'failing_input_found': True,
                               'ops': small, 'observed': ms['prop_viol'], 'outs': ms['outs'],
                               'model_agrees': i not in bad, 'cases_violating': len(propbad)})
            reported = True
        apropbad = [m for m in ametas if m['prop_viol']]
        if apropbad and not reported:
            m = min(apropbad, key=lambda x: len(x['ops']))
            violations.append({'message': m['prop_viol'][0][1], 'cause': m['prop_viol'][0][1], 'failing_input_found': True,
                               'ops': m['ops'], 'then_add_attacker_calls': m['adds'], 'add_outcomes': m['add_outs'],
                               'observed': m['prop_viol'][:6], 'cases_violating': len(apropbad)})
            reported = True
        if abad and not reported:
            m = ametas[abad[0]]
            violations.append({'message': 'implementation and model disagree on a history that ends with add_attacker calls taken as they are; '
                                          'no input found on which the property itself fails on the implementation',
                               'cause': 'model-mismatch', 'correspondence': 'corr_C11_adds (GraphMirror.obs_run_then_adds)',
                               'ops': m['ops'], 'then_add_attacker_calls': m['adds'], 'impl_outs': m['outs'], 'impl_add_outs': m['add_outs'],
                               'impl_obs': m['obs'], 'mismatching_cases': len(abad)})
            reported = True
        if bad and not reported:
            i = bad[0]
            m = metas[i]
            model_obs = C.coq_eval(GW.IMPORTS, 'obs_run ' + C.clist([GW.c_op(o) for o in m['ops']]))
            violations.append({'message': 'implementation and model disagree; no input found on which the property '
                                          'itself fails on the implementation',
                               'cause': 'model-mismatch', 'correspondence': f'corr_{pid}_obs_run (GraphOps.obs_run)',
                               'ops': m['ops'], 'impl_outs': m['outs'], 'impl_obs': m['obs'],
                               'model_obs': model_obs[:6000], 'mismatching_cases': len(bad)})
    distinct = set()
    for m in metas:
        if nontrivial(pid, m['ops'], m['outs'], m['obs']):
            distinct.add(json.dumps([m['outs'], m['obs']], default=str))
    lens = [len(m['ops']) for m in metas]
    cov = {'evaluations': len(cases), 'distinct_nontrivial': len(distinct),
           'rule': RULES.get(pid, ''), 'samples': [metas[len(metas) // 2]['ops'], metas[-1]['ops']] if metas else [],
           'streams': streams, 'op_histogram': opcount, 'premises_met': guards,
           'history_length': {'min': min(lens, default=0), 'max': max(lens, default=0),
                              'mean': round(sum(lens) / max(1, len(lens)), 1)},
           'mismatches': len(bad) + len(abad), 'exhaustive': False}
    if pid == 'C11':
        cov['evaluations'] += len(ametas)
        cov['streams']['rejected-adds'] = len(ametas)
        cov['add_attacker_calls_rejected'] = sum(1 for m in ametas for oc in m['add_outs'] if oc)
    if pid == 'C09':
        # "a regenerated graph is indistinguishable from a freshly generated one": generate from a real language and
        # model, edit the model and the graph, regenerate, compare with Gen.generate on the edited model
        from . import p_gen
        rg = p_gen.check('C09', tier, seed)
        violations += rg['violations']
        cov['regenerate'] = {k: rg['coverage'][k] for k in ('evaluations', 'distinct_nontrivial', 'mismatches', 'streams')}
        cov['evaluations'] += rg['coverage']['evaluations']
    return {'violations': violations, 'coverage': cov,
            'trusted': ['object identity = dataclass equality on every generated history (distinct ids)'],
            'assumptions': ['operations are applied as the API intends (GraphOps.guard): nodes/attackers passed to '
                            'graph operations belong to the graph, ids passed to add_attacker exist, a node is added '
                            'with empty relation lists and a fresh full name',
                            'theorems are about the Gallina model; the model is tied to the code by this run only']}

RULES = {
    'C08': 'every 2-node graph over type x status x {no TTC, TTC distribution} x every edge set incl. self-loops (every 8th in quick, all in thorough) + every 4-node fan (defense on/off, two children or/and with/without a TTC distribution linked in either order, a grandchild below one or both; 384) + seeded random fresh-labelled graphs of 2-7 nodes with a random reordering of the node list before the analysis; non-trivial = some label ends up false; distinct by final observation',
    'C09': 'seeded random guarded histories over all graph operations; non-trivial = final graph non-empty and >3 kinds of operation; distinct by (outcomes, final observation)',
    'C11': 'all sequences of 2 (quick) / 3 (thorough) operations over 15 operations on a 3-node 2-attacker graph + seeded random histories + seeded histories that end with 1-3 add_attacker calls taken as they are (ids that no node has, so that the call is rejected half-way; rejected or removed attackers added again); non-trivial = some attacker has reached steps and the history contains undo / remove_attacker / attach',
    'C12': 'seeded random labelled graphs with 1-3 attackers and interleaved compromises / queries + defense churn (defense queries, a defense removed and another added with the node count unchanged, the queries again); non-trivial = some query returned a non-empty list',
    'C13': 'seeded random labelled graphs (runs of adjacent prunable nodes arise from random labels); non-trivial = history prunes and some node is labelled non-viable or unnecessary',
    'C14': 'seeded random histories with deep copies followed by mutations of the copy and of the original; non-trivial = history contains a copy of a graph with >2 node objects',
}


def replay(pid: str, path: str) -> int:
    payload = json.load(open(path))
    ops = [tuple(o) for o in payload.get('ops', [])]
    if not ops:
        print(json.dumps(payload, indent=1)[:4000])
        return 0
    def fix(o):
        o = list(o)
        if o[0] == 'attach':
            o[1] = [(n, [(a, list(s)) for a, s in eps]) for n, eps in o[1]]
        return tuple(o)
    ops = [fix(o) for o in ops]
    with C.Scratch():
        impl = C.import_impl()
        m = run_with_predicates(pid, impl, ops)
    print('operations:')
    for i, o in enumerate(ops):
        print(f'  {i}: {o}  ->  {m["outs"][i] if i < len(m["outs"]) else None}')
    print('property violations observed on the implementation:', m['prop_viol'])
    print('model:', C.coq_eval(GW.IMPORTS, 'obs_run ' + C.clist([GW.c_op(o) for o in ops]))[:3000])
    print('implementation:', json.dumps([m['outs'], m['obs']], default=str)[:3000])
    return 1 if m['prop_viol'] else 0
