"""C04 / C17 — the MAL compiler against coq/theories/Mal*.v.
C04: random and shipped specifications are printed as MAL (harness/malsyntax.py), lexed and parsed by the real ANTLR
lexer / parser and compiled by MalCompiler; Coq checks that its printer gives the same tokens, that its visitor on
the real parse tree and its parser + visitor on the real tokens give the implementation's result; layouts with
includes. C17: mutated sources; the oracle of `erroneous` is the real lexer + parser with counting listeners."""
from __future__ import annotations
import copy, json, os, random, time, zipfile
from . import common as C
from . import malsyntax as MS
from . import langgen as LG

IMPORTS = 'Prelude Codec Lang Mal MalPrint MalThm MalParse MalParseThm MalInclude MalCompile'


def antlr_run(text):
    from antlr4 import InputStream, CommonTokenStream
    from antlr4.error.ErrorListener import ErrorListener
    from maltoolbox.language.compiler.mal_lexer import malLexer
    from maltoolbox.language.compiler.mal_parser import malParser

    class Count(ErrorListener):
        def __init__(self):
            super().__init__()
            self.n = 0
        def syntaxError(self, *a):
            self.n += 1
    lc, pc = Count(), Count()
    lexer = malLexer(InputStream(text))
    lexer.removeErrorListeners(); lexer.addErrorListener(lc)
    stream = CommonTokenStream(lexer)
    parser = malParser(stream)
    parser.removeErrorListeners(); parser.addErrorListener(pc)
    tree = parser.mal()
    toks = [MS.classify_antlr_token(malParser, t) for t in stream.tokens if t.type != -1]
    return toks, lc.n, pc.n, tree, malParser


class Hang(Exception):
    pass


def with_timeout(f, seconds=20):
    """The implementation can loop on some inputs (and on some seeded changes): bound every call."""
    import signal
    def onalarm(signum, frame):
        raise Hang()
    old = signal.signal(signal.SIGALRM, onalarm)
    signal.setitimer(signal.ITIMER_REAL, seconds)
    try:
        return f()
    finally:
        signal.setitimer(signal.ITIMER_REAL, 0)
        signal.signal(signal.SIGALRM, old)


def impl_compile(path):
    from maltoolbox.language.compiler import MalCompiler
    return with_timeout(lambda: MalCompiler().compile(path))


def write(scratch, name, text):
    fn = os.path.join(scratch, name)
    os.makedirs(os.path.dirname(fn), exist_ok=True)
    with open(fn, 'w', encoding='utf-8') as f:
        f.write(text)
    return fn


def printable(spec):
    try:
        return MS.decl_tokens(spec)
    except (MS.Unprintable, ValueError):
        return None


def shipped_specs():
    out = []
    d = os.path.join(C.REPO, 'tests', 'testdata')
    for fn in sorted(os.listdir(d)):
        if fn.endswith('.mar'):
            with zipfile.ZipFile(os.path.join(d, fn)) as z:
                out.append((fn, json.loads(z.read('langspec.json'))))
    return out


def spec_diff(a, b):
    for k in ('defines', 'categories', 'assets', 'associations', 'formatVersion'):
        if a.get(k) != b.get(k):
            if isinstance(a.get(k), list) and isinstance(b.get(k), list):
                for i, (x, y) in enumerate(zip(a[k], b[k])):
                    if x != y:
                        if k == 'assets':
                            for kk in x:
                                if x[kk] != y.get(kk):
                                    if kk == 'attackSteps':
                                        for s1, s2 in zip(x[kk], y[kk]):
                                            if s1 != s2:
                                                return f"asset {x.get('name')}, step {s1.get('name')}: " + ', '.join(f for f in s1 if s1[f] != s2.get(f))
                                    return f"asset {x.get('name')}: {kk}"
                        return f'{k}[{i}]'
                return f'{k}: length {len(a[k])} vs {len(b[k])}'
            return k
    return None


# ----------------------------------------------------------------------------- C04
def check_c04(tier, seed):
    rng = random.Random(seed * 15485863 + 4)
    violations, metas = [], []
    cases, lcases = [], []
    streams = {}
    with C.Scratch() as scratch:
        impl = C.import_impl()
        gen = MS.SpecGen(rng)
        lgen = LG.LangGen(rng, dup_assoc_names=0.2)
        specs = [('random', gen.spec()) for _ in range(70 if tier == 'quick' else 900)]
        for _ in range(20 if tier == 'quick' else 200):
            L = copy.deepcopy(lgen.gen())
            specs.append(('typed', L))
        shipped = shipped_specs()
        for name, sp in shipped:
            specs.append(('shipped:' + name, sp))
        for idx, (stream, spec) in enumerate(specs):
            decls = printable(spec)
            streams[stream.split(':')[0]] = streams.get(stream.split(':')[0], 0) + 1
            if decls is None:
                metas.append({'stream': stream, 'skipped': 'not printable', 'prop_viol': []})
                continue
            toks = [t for d in decls for t in d]
            text = MS.render(toks, rng if not stream.startswith('shipped') else None)
            fn = write(scratch, f's{idx}.mal', text)
            pv = []
            try:
                res = impl_compile(fn)
            except Exception as e:
                res = None
                pv.append(f'compiling the printed specification raised {type(e).__name__}')
            if res is not None and res != spec:
                pv.append('printing a specification as MAL and compiling it does not give the specification back (' + str(spec_diff(res, spec)) + ')')
            real, le, pe, tree, P = antlr_run(text)
            if le or pe:
                pv.append('the printed specification has syntax errors')
            m = {'stream': stream, 'prop_viol': pv, 'ntokens': len(real), 'text': text if len(text) < 6000 else text[:6000]}
            metas.append(m)
            big = len(real) > 6000
            if res is not None and not (le or pe) and not big:
                cst = MS.TreePrinter(P).mal(tree)
                cases.append(f'({MS.c_fspec(spec)}, {C.clist([MS.c_tok(t) for t in real])}, {cst}, {C.cjv(res)})')
                m['case'] = len(cases) - 1
            elif big and res is not None:
                # large shipped languages: one Coq case per asset block / association block
                for d in decls[:400] if tier == 'quick' else decls:
                    t2 = MS.render(d)
                    r2, le2, pe2, tree2, _ = antlr_run(t2)
                    fn2 = write(scratch, 'part.mal', t2)
                    try:
                        res2 = impl_compile(fn2)
                    except Exception:
                        continue
                    cases.append(f'(spec_empty, {C.clist([MS.c_tok(t) for t in r2])}, {MS.TreePrinter(P).mal(tree2)}, {C.cjv(res2)})')
            # layouts
            if res is not None and not pv and not stream.startswith('shipped') and len(decls) >= 2:
                # for the layouts every association gets an associations block of its own, so that associations (same-named
                # ones among them) can end up in different files
                ldecls = list(decls)
                if len(spec['associations']) >= 2:
                    ldecls = decls[:-1] + [[MS.t_kw('associations'), MS.t_sym('{')] + MS.p_assoc(a) + [MS.t_sym('}')] for a in spec['associations']]
                for layout in range(2):
                    k = rng.randint(1, min(3 if layout == 0 else 5, len(ldecls) - 1))
                    cuts = sorted(rng.sample(range(1, len(ldecls)), k))
                    parts = [ldecls[i:j] for i, j in zip([0] + cuts, cuts + [len(ldecls)])]
                    files, root = {}, []
                    prev_file = None                      # a file part that ends the root so far: the next file part may be nested in it
                    for pi, part in enumerate(parts):
                        if rng.random() < 0.65:
                            name = f'inc_{pi}.mal'          # the same file names in every compilation of this process
                            files[name] = [t for d in part for t in d]
                            if prev_file is not None and rng.random() < 0.4:
                                files[prev_file] = files[prev_file] + [('kw', 'include'), ('str', name)]      # nested include, same order
                            else:
                                root += [('kw', 'include'), ('str', name)]
                                if rng.random() < 0.25:
                                    root += [('kw', 'include'), ('str', name)]                                # repeated include
                            prev_file = name
                        else:
                            root += [t for d in part for t in d]
                            prev_file = None
                    if not files:
                        continue
                    for name, ft in files.items():
                        write(scratch, name, MS.render(ft, rng))
                    rfn = write(scratch, f'root{idx}_{layout}.mal', MS.render(root, rng))
                    lv = []
                    try:
                        lres = impl_compile(rfn)
                        if lres != res:
                            lv.append('distributing the declarations over included files changes the compiled specification (' + str(spec_diff(lres, res)) + ')')
                    except Exception as e:
                        lres = None
                        lv.append(f'compiling a layout with includes raised {type(e).__name__}')
                    metas.append({'stream': 'layout', 'prop_viol': lv, 'files': {n: MS.render(t) for n, t in files.items()}, 'text': MS.render(root)})
                    streams['layout'] = streams.get('layout', 0) + 1
                    if lres is not None:
                        fl = C.clist([f'({C.cstr(n)}, {C.clist([MS.c_tok(t) for t in ft])})' for n, ft in files.items()])
                        lcases.append(f'({fl}, {C.clist([MS.c_tok(t) for t in root])}, {C.cjv(lres)})')
        check_def = ('Definition files0 (s : string) : option cmal := None.\n'
                     'Definition check (c : fspec * list tok * cmal * jv) : bool :=\n'
                     '  let \'(s, toks, t, r) := c in\n'
                     '  let whole := negb (match sp_assets s, sp_categories s, sp_assocs s, sp_defines s with [], [], [], [] => true | _, _, _, _ => false end) in\n'
                     '  match v_mal files0 2 t, compile (fun _ => None) (parse_fuel toks) 2 toks with\n'
                     '  | Some s1, Some s2 => jv_eqb (jv_of_spec numval s1) r && jv_eqb (jv_of_spec numval s2) r &&\n'
                     '      (if whole then jv_eqb (jv_of_spec numval s) r && list_eqb tok_beq (print_spec s) toks else true)\n'
                     '  | _, _ => false end.')
        extra = {'WF': 'count_true (fun c : fspec * list tok * cmal * jv => wf_specb (fst (fst (fst c)))) cases'}
        bad, counters, errors = C.run_cases('C04', IMPORTS, 'fspec * list tok * cmal * jv', check_def, cases, extra, shard=12)
        lcheck = ('Definition flat_ok (c : list (string * list tok) * list tok * jv) : bool :=\n'
                  '  let \'(files, root, r) := c in\n'
                  '  match flat_of (fun f => dget seqb files f) (parse_fuel root) 8 root with\n'
                  '  | Some fm => str_nodupb (define_keys fm) | None => false end.\n'
                  'Definition check (c : list (string * list tok) * list tok * jv) : bool :=\n'
                  '  let \'(files, root, r) := c in\n'
                  '  match compile (fun f => dget seqb files f) (parse_fuel root) 8 root with\n'
                  '  | Some s => jv_eqb (jv_of_spec numval s) r &&\n'
                  '      match flat_of (fun f => dget seqb files f) (parse_fuel root) 8 root with\n'
                  '      | Some fm => jv_eqb (jv_of_spec numval (flat_spec fm)) r\n'
                  '      | None => false end\n'
                  '  | None => false end.')
        lbad, lcounters, lerrors = C.run_cases('C04L', IMPORTS, 'list (string * list tok) * list tok * jv', lcheck, lcases, {'FLAT': 'count_true flat_ok cases'}, shard=20)
    errors = errors + lerrors
    if errors:
        violations.append({'message': 'the correspondence could not be evaluated', 'cause': 'coq-error',
                           'correspondence': 'corr_C04_compile', 'errors': errors[:3]})
    by_cause = {}
    for m in metas:
        for v in m['prop_viol']:
            by_cause.setdefault(v.split(' (')[0], []).append((v, m))
    for cause, ms in sorted(by_cause.items()):
        v, m = min(ms, key=lambda x: len(x[1].get('text', '')))
        violations.append({'message': v, 'cause': cause, 'failing_input_found': True, 'stream': m['stream'], 'source': m.get('text'),
                           'files': m.get('files'), 'cases_violating': len(ms)})
    if (bad or lbad) and not by_cause:
        violations.append({'message': 'implementation and model disagree; no input found on which the property itself fails',
                           'cause': 'model-mismatch', 'correspondence': 'corr_C04_compile (Mal.v_mal / MalCompile.compile / MalPrint.print_spec)',
                           'mismatching_cases': len(bad) + len(lbad),
                           'source': next((m.get('text') for m in metas if m.get('case') in bad), None)})
    skipped = sum(1 for m in metas if m.get('skipped'))
    cov = {'evaluations': len(cases) + len(lcases), 'distinct_nontrivial': len({m.get('text') for m in metas if m.get('ntokens', 0) > 60}),
           'rule': 'random specifications (every step type, nested set / collect / transitive / subtype / variable expressions, TTC arithmetic, CIA, '
                   'tags, meta strings, all multiplicity forms), type-directed languages, and the shipped .mar specifications, printed as MAL with '
                   'random whitespace and comments; 2 layouts per specification with 1-3 included files, repeated and nested includes; the large '
                   'shipped specifications are additionally cut into per-declaration cases for the Coq run; non-trivial = more than 60 tokens',
           'samples': [next((m['text'][:800] for m in metas if m.get('ntokens', 0) > 60), '')], 'streams': streams, 'skipped_unprintable': skipped,
           'premises_met': counters.get('WF', 0), 'layout_cases': len(lcases), 'layout_cases_with_distinct_define_keys': lcounters.get('FLAT', 0), 'mismatches': len(bad) + len(lbad), 'exhaustive': False}
    return {'violations': violations, 'coverage': cov,
            'trusted': ['the ANTLR-generated lexer and parser (mal_lexer.py, mal_parser.py) implement mal.g4: modelled by MalParse.v, compared on '
                        'every case (tokens, acceptance, trees through the visitor), not verified',
                        'float(text) of number lexemes (Mal.numval reproduces it for the values used)'],
            'assumptions': ['identifiers are lexable and not reserved (abstract asset associations extends include category info let E C I A), '
                            'strings contain no double quote (checked by the printer, which refuses other specifications)',
                            'theorems are about the Gallina model; the model is tied to the code by this run only']}


# ----------------------------------------------------------------------------- C17
POOL = ([('sym', s) for s in MS.SYMBOLS] + [('kw', k) for k in MS.KEYWORDS]
        + [('id', 'zz'), ('int', '3'), ('float', '0.5'), ('str', 's'), ('junk', '$'), ('junk', ';'), ('junk', '%'), ('junk', "'")])


def mutate(rng, toks):
    k = rng.choice(['del', 'del', 'ins', 'ins', 'dup', 'trunc', 'swap', 'repl', 'reserved'])
    j = rng.randrange(len(toks))
    if k == 'del': return k, toks[:j] + toks[j + 1:]
    if k == 'ins': return k, toks[:j] + [rng.choice(POOL)] + toks[j:]
    if k == 'dup': return k, toks[:j] + [toks[j]] + toks[j:]
    if k == 'trunc': return k, toks[:j]
    if k == 'swap': return k, toks[:j] + toks[j + 1:j + 2] + toks[j:j + 1] + toks[j + 2:]
    if k == 'repl': return k, toks[:j] + [rng.choice(POOL)] + toks[j + 1:]
    ids = [i for i, t in enumerate(toks) if t[0] == 'id']
    if not ids:
        return 'del', toks[:j] + toks[j + 1:]
    i = rng.choice(ids)
    return k, toks[:i] + [('kw', rng.choice(['A', 'C', 'I', 'E', 'info', 'let']))] + toks[i + 1:]


def render_junk(toks, rng=None):
    return MS.render([(('sym', t[1]) if t[0] == 'junk' else t) for t in toks], rng)


def check_c17(tier, seed):
    rng = random.Random(seed * 32452843 + 17)
    violations, metas, cases = [], [], []
    kinds = {}
    with C.Scratch() as scratch:
        impl = C.import_impl()
        from maltoolbox.language import LanguageGraph
        gen = MS.SpecGen(rng)
        n = 45 if tier == 'quick' else 500
        for i in range(n):
            spec = gen.spec()
            decls = printable(spec)
            if decls is None:
                continue
            toks = [t for d in decls for t in d]
            variants = [('valid', toks, None)]
            for _ in range(10):
                k, m = mutate(rng, toks)
                variants.append((k, m, None))
            # the same kind of damage inside an included file
            if len(decls) >= 2:
                for _ in range(3):
                    cut = rng.randrange(1, len(decls))
                    inc = [t for d in decls[cut:] for t in d]
                    k, m = mutate(rng, inc)
                    root = [t for d in decls[:cut] for t in d] + [('kw', 'include'), ('str', f'inc{i}.mal')]
                    variants.append(('include-' + k, root, m))
            # a damaged included file followed by a further (valid) include, directly or one level down
            if len(decls) >= 3:
                for _ in range(2):
                    c1 = rng.randrange(1, len(decls) - 1)
                    c2 = rng.randrange(c1 + 1, len(decls))
                    k, m = mutate(rng, [t for d in decls[c1:c2] for t in d])
                    write(scratch, f'ok{i}.mal', render_junk([t for d in decls[c2:] for t in d]))
                    head = [t for d in decls[:c1] for t in d]
                    if rng.random() < 0.5:
                        root = head + [('kw', 'include'), ('str', f'inc{i}.mal'), ('kw', 'include'), ('str', f'ok{i}.mal')]
                    else:
                        write(scratch, f'mid{i}.mal', render_junk([('kw', 'include'), ('str', f'inc{i}.mal')]))
                        root = head + [('kw', 'include'), ('str', f'mid{i}.mal'), ('kw', 'include'), ('str', f'ok{i}.mal')]
                    variants.append(('include-then-include-' + k, root, m))
            # two included files whose names a careless include-once key or cache would identify (same stem up to trailing
            # letters of the suffix, same base name in another directory, case, doubled suffix); the valid one comes first
            if len(decls) >= 2 and i % 2 == 0:
                cut = rng.randrange(1, len(decls))
                k, m = mutate(rng, [t for d in decls[cut:] for t in d])
                vname, dname = rng.choice([(f'p{i}a.mal', f'p{i}l.mal'), (f'q{i}.mal', f'sub{i}/q{i}.mal'), (f'R{i}.mal', f'r{i}.mal'),
                                           (f's{i}.mal', f's{i}.mal.mal'), (f'sub{i}/t{i}.mal', f't{i}.mal'), (f'dat{i}a.mal', f'dat{i}.mal')])
                write(scratch, vname, render_junk([t for d in decls[:cut] for t in d]))
                variants.append(('include-similar-name-' + k, [('kw', 'include'), ('str', vname), ('kw', 'include'), ('str', dname)], m, dname))
            # ... and nested: the damaged file's name occurs inside the name of the (valid) file that includes it
            if len(decls) >= 2 and i % 2 == 1:
                cut = rng.randrange(1, len(decls))
                k, m = mutate(rng, [t for d in decls[cut:] for t in d])
                oname, iname = rng.choice([(f'sub{i}/core{i}.mal', f'core{i}.mal'), (f'meta{i}data{i}.mal', f'data{i}.mal'),
                                           (f'main{i}.mal', f'in{i}.mal'), (f'x{i}.mal.mal', f'x{i}.mal')])
                write(scratch, oname, render_junk([t for d in decls[:cut] for t in d] + [('kw', 'include'), ('str', iname)]))
                variants.append(('include-name-inside-name-' + k, [('kw', 'include'), ('str', oname)], m, iname))
            # two languages in two directories with equally named files, loaded one after the other in this process: the
            # second one's own (damaged) included file is the one that counts
            if len(decls) >= 2 and i % 4 == 2:
                cut = rng.randrange(1, len(decls))
                good = [t for d in decls[cut:] for t in d]
                rootk = [t for d in decls[:cut] for t in d] + [('kw', 'include'), ('str', 'parts.mal')]
                for dmg in range(3):
                    k, m = mutate(rng, good)
                    dtext = render_junk(m)
                    _, dle, dpe, _, _ = antlr_run(dtext)
                    if dle + dpe == 0:
                        continue
                    write(scratch, f'dirA{i}/parts.mal', render_junk(good))
                    write(scratch, 'parts.mal', render_junk(good))      # ... and next to the sources loaded earlier in this process
                    fa = write(scratch, f'dirA{i}/root.mal', render_junk(rootk))
                    write(scratch, f'dirB{i}/parts.mal', dtext)
                    fb = write(scratch, f'dirB{i}/root.mal', render_junk(rootk))
                    hv = []
                    try:
                        with_timeout(lambda: LanguageGraph.from_mal_spec(fa))
                    except Exception:
                        pass
                    try:
                        with_timeout(lambda: LanguageGraph.from_mal_spec(fb))
                        hv.append('LanguageGraph.from_mal_spec returned a result for a source with syntax errors (loaded after a language with equally named files in another directory)')
                    except Hang:
                        hv.append('LanguageGraph.from_mal_spec did not terminate within 20 s')
                    except Exception as e:
                        # (the random specifications need not be meaningful languages: a rejection by the compiler is what counts)
                        if type(e).__name__ != 'MalCompilerError':
                            hv.append('LanguageGraph.from_mal_spec compiled a source with syntax errors (loaded after a language with equally named '
                                      f'files in another directory): the compiler returned a specification, building the language graph then raised {type(e).__name__}')
                    kinds['two-directories-' + k] = kinds.get('two-directories-' + k, 0) + 1
                    if hv:
                        metas.append({'kind': 'two-directories-' + k, 'erroneous': True, 'lexer_errors': dle, 'prop_viol': hv, 'text': render_junk(rootk),
                                      'included': dtext, 'history': 'dirA/root.mal (valid parts.mal) loaded first, then dirB/root.mal (damaged parts.mal)'})
                    break
            # a damaged file at the bottom of a chain of 9-13 includes (each file of the chain declares nothing itself)
            if i % 5 == 0:
                depth = rng.randint(9, 13)
                k, m = mutate(rng, toks)
                for lvl in range(1, depth):
                    write(scratch, f'ch{i}_{lvl}.mal', render_junk([('kw', 'include'), ('str', f'ch{i}_{lvl + 1}.mal')]))
                variants.append((f'include-depth-{depth}-' + k, [('kw', 'include'), ('str', f'ch{i}_1.mal')], m, f'ch{i}_{depth}.mal'))
            # a history on unchanged file names: the layout compiles, then an included file (one or two levels down) is
            # damaged while the files including it keep their text, and the same root is compiled again
            if len(decls) >= 2:
                cut = rng.randrange(1, len(decls))
                leaf_ok = [t for d in decls[cut:] for t in d]
                nested = rng.random() < 0.5
                write(scratch, f'hleaf{i}.mal', render_junk(leaf_ok))
                if nested:
                    write(scratch, f'hmid{i}.mal', render_junk([('kw', 'include'), ('str', f'hleaf{i}.mal')]))
                hroot = [t for d in decls[:cut] for t in d] + [('kw', 'include'), ('str', f'hmid{i}.mal' if nested else f'hleaf{i}.mal')]
                hfn = write(scratch, f'hroot{i}.mal', render_junk(hroot))
                hv = []
                try:
                    impl_compile(hfn)
                    first_ok = True
                except Exception:
                    first_ok = False
                for _ in range(4):
                    k, m = mutate(rng, leaf_ok)
                    dtext = render_junk(m)
                    _, dle, dpe, _, _ = antlr_run(dtext)
                    if dle + dpe == 0:
                        continue
                    write(scratch, f'hleaf{i}.mal', dtext)
                    for label, f in (('MalCompiler.compile', lambda: impl_compile(hfn)),
                                     ('LanguageGraph.from_mal_spec', lambda: with_timeout(lambda: LanguageGraph.from_mal_spec(hfn)))):
                        try:
                            f()
                            hv.append(f'{label} returned a result for a source with syntax errors')
                        except Hang:
                            hv.append(f'{label} did not terminate within 20 s')
                        except Exception:
                            pass
                    kinds['history-' + k] = kinds.get('history-' + k, 0) + 1
                    if hv:
                        metas.append({'kind': 'history-' + k, 'erroneous': True, 'lexer_errors': dle, 'prop_viol': hv, 'text': render_junk(hroot),
                                      'included': dtext, 'history': 'the same root compiled before with the valid included file' + (' (two levels down)' if nested else '')})
                        break
            for vi, (k, root, inc, *incname) in enumerate(variants):
                text = render_junk(root)
                T, le, pe, tree, P = antlr_run(text)
                err = le + pe > 0
                if inc is not None:
                    itext = render_junk(inc)
                    write(scratch, incname[0] if incname else f'inc{i}.mal', itext)
                    T2, le2, pe2, _, _ = antlr_run(itext)
                    err = err or (le2 + pe2 > 0)
                fn = write(scratch, f'm{i}_{vi}.mal', text)
                pv = []
                for label, f in (('MalCompiler.compile', lambda: impl_compile(fn)),
                                 ('LanguageGraph.from_mal_spec', lambda: with_timeout(lambda: LanguageGraph.from_mal_spec(fn)))):
                    try:
                        f()
                        raised = False
                    except Hang:
                        raised = True
                        pv.append(f'{label} did not terminate within 20 s')
                    except Exception:
                        raised = True
                    if err and not raised:
                        pv.append(f'{label} returned a result for a source with syntax errors')
                    if label == 'MalCompiler.compile' and not err and raised:
                        pv.append('a source without syntax errors was rejected by the compiler')
                kinds[k] = kinds.get(k, 0) + 1
                metas.append({'kind': k, 'erroneous': err, 'lexer_errors': le, 'prop_viol': pv, 'text': text,
                              'included': render_junk(inc) if inc is not None else None})
                if inc is None:
                    cases.append('(' + C.clist([MS.c_tok(t) for t in T]) + f', {C.cbool(pe == 0)})')
                else:
                    cases.append('(' + C.clist([MS.c_tok(t) for t in T2]) + f', {C.cbool(pe2 == 0)})')
        check_def = ('Definition check (c : list tok * bool) : bool :=\n'
                     '  Bool.eqb (match parse_mal (parse_fuel (fst c)) (fst c) with Some _ => true | None => false end) (snd c).')
        bad, counters, errors = C.run_cases('C17', IMPORTS, 'list tok * bool', check_def, cases, None, shard=60)
    if errors:
        violations.append({'message': 'the correspondence could not be evaluated', 'cause': 'coq-error',
                           'correspondence': 'corr_C17_parse', 'errors': errors[:3]})
    by_cause = {}
    for m in metas:
        for v in m['prop_viol']:
            by_cause.setdefault(v, []).append(m)
    for cause, ms in sorted(by_cause.items()):
        m = min(ms, key=lambda x: len(x['text']))
        violations.append({'message': cause, 'cause': cause, 'failing_input_found': True, 'mutation': m['kind'], 'source': m['text'],
                           'included_file': m['included'], 'cases_violating': len(ms)})
    if bad and not by_cause:
        m = metas[bad[0]]
        violations.append({'message': 'implementation (ANTLR parser) and model (MalParse.parse_mal) disagree on acceptance; no input found on which the property itself fails',
                           'cause': 'model-mismatch', 'correspondence': 'corr_C17_parse (MalParse.parse_mal)', 'source': m['text'],
                           'included_file': m['included'], 'mismatching_cases': len(bad)})
    cov = {'evaluations': len(cases), 'distinct_nontrivial': len({m['text'] for m in metas if m['erroneous']}),
           'rule': 'valid programs from random specifications and 15 mutants each (token deletion, insertion incl. characters outside the '
                   'alphabet, duplication, truncation, swap, replacement, reserved-word misuse), 5 of them inside an included file, 2 of those followed by a further valid include (directly or one level down); '
                   'erroneous = the real lexer or parser reports an error; non-trivial = erroneous; distinct by text',
           'samples': [next((m['text'][:400] for m in metas if m['erroneous']), '')], 'mutation_kinds': kinds,
           'erroneous': sum(1 for m in metas if m['erroneous']), 'accepted': sum(1 for m in metas if not m['erroneous']),
           'lexer_error_cases': sum(1 for m in metas if m['lexer_errors']), 'mismatches': len(bad), 'exhaustive': False}
    return {'violations': violations, 'coverage': cov,
            'trusted': ['the ANTLR-generated lexer and parser with counting error listeners are the oracle of `erroneous` (the property says so); '
                        'MalParse.parse_mal is compared with the parser on every case',
                        'characters outside the alphabet are reported by the real lexer; the model starts at the token list'],
            'assumptions': ['text after the last parsable declaration is not an error of the grammar (mal has no trailing EOF): such sources are '
                            'accepted by ANTLR, the implementation and the model alike',
                            'theorems are about the Gallina model; the model is tied to the code by this run only']}


def check(pid: str, tier: str, seed: int):
    return check_c04(tier, seed) if pid == 'C04' else check_c17(tier, seed)


def replay(pid, path):
    print(json.dumps(json.load(open(path)), indent=1, default=str)[:8000])
    return 0
