"""C16 — generation is deterministic and does not disturb its inputs. The theorem side is thin by nature (the model is
a function of the language and the model view); the substance is the run: the same (language, model) pairs are turned
into attack graphs in this process (twice), in fresh interpreters with different PYTHONHASHSEED values, through the
direct API and through create_attack_graph from .mar and .mal files, and every serialized graph must be identical;
the in-process graph is also compared with Gen.generate (GenObs.gen_check)."""
from __future__ import annotations
import copy, json, os, random, subprocess, sys, time, zipfile
from concurrent.futures import ThreadPoolExecutor
from . import common as C
from . import langgen as LG
from . import modelgen as MG
from . import malsyntax as MS
from . import p_gen as PG
from . import p_graphio as PIO
from . import p_lang as PL

SEEDS = ['0', '1', '2', '3', 'random']


def run_driver(route, batch_file, seed, cwd):
    env = dict(os.environ)
    env.update({'PYTHONHASHSEED': seed, 'PYTHONPATH': C.REPO, 'VERIF_REPO': C.REPO})
    p = subprocess.run(['timeout', '300', sys.executable, os.path.join(C.VERIF, 'harness', 'c16_driver.py'), route, batch_file],
                       cwd=cwd, env=env, capture_output=True, text=True)
    lines = [l for l in p.stdout.splitlines() if l.startswith('[')]
    return (route, seed), lines, p.returncode


def check(pid: str, tier: str, seed: int):
    rng = random.Random(seed * 49979693 + 16)
    violations, metas, cases = [], [], []
    with C.Scratch() as scratch:
        impl = C.import_impl()
        from maltoolbox.language import LanguageGraph, LanguageClassesFactory
        from maltoolbox.model import Model
        from maltoolbox.attackgraph import AttackGraph
        from maltoolbox.attackgraph.analyzers.apriori import calculate_viability_and_necessity
        lgen = LG.LangGen(rng, dup_assoc_names=0.2)
        pairs = []          # (label, L or None, lg, lcf, model, files)
        n = 10 if tier == 'quick' else 80
        for i in range(n):
            L = lgen.gen()
            for s in [st for a in L['assets'] for st in a['attackSteps']]:
                if rng.random() < 0.4:
                    s['tags'] = rng.sample(['alpha', 'beta', 'gamma', 'delta', 'hidden'], rng.randint(2, 4))
            L_given = copy.deepcopy(L)
            try:
                lg, lcf = MG.make_lang(impl, L)
            except Exception:
                continue
            if L != L_given:
                metas.append({'label': f'gen{i}', 'nodes': 0, 'serialized': None,
                              'prop_viol': ['building the language graph changed the language specification it was given'],
                              'lang': [(a['name'], a['superAsset'], [v['name'] for v in a['variables']]) for a in L_given['assets']]})
                L = copy.deepcopy(L_given)
            m = MG.gen_model(impl, rng, L, lg, lcf, n_assets=(2, 6))
            PIO.add_model_attackers(impl, rng, m, lg)
            pairs.append((f'gen{i}', L, lg, lcf, m))
        # every operator over a model in which assets reach one field through several association objects
        Lo = PG.ops_language()
        try:
            Lo_given = copy.deepcopy(Lo)
            lgo, lcfo = MG.make_lang(impl, Lo)
            if Lo != Lo_given:
                # (the operator language declares a variable on the root type that its sub-types use through inherited steps)
                metas.append({'label': 'ops', 'nodes': 0, 'serialized': None,
                              'prop_viol': ['building the language graph changed the language specification it was given'],
                              'lang': [(a['name'], a['superAsset'], [v['name'] for v in a['variables']]) for a in Lo_given['assets']]})
                Lo = copy.deepcopy(Lo_given)
            for oi, links in enumerate([[('Pp', 0, 1), ('Pp', 0, 2), ('Qq', 0, 1), ('Qq', 1, 2), ('Pp', 1, 0)],
                                        [('Pp', 0, 1), ('Pp', 0, 2), ('Pp', 0, 0), ('Qq', 2, 0), ('Qq', 2, 1), ('Qq', 1, 1)]]):
                mo = Model(f'ops{oi}', lcfo)
                objs = []
                for k, t in enumerate(['Aa', 'Bb', 'Cc']):
                    objs.append(getattr(lcfo.ns, t)(name=f'{t.lower()}{k}'))
                    mo.add_asset(objs[-1])
                for cls, l, r in links:
                    o = getattr(lcfo.ns, cls)()
                    lf, rf = ('pa', 'pb') if cls == 'Pp' else ('qa', 'qb')
                    setattr(o, lf, [objs[l]]); setattr(o, rf, [objs[r]])
                    mo.add_association(o)
                PIO.add_model_attackers(impl, rng, mo, lgo)
                pairs.append((f'ops{oi}', Lo, lgo, lcfo, mo))
        except Exception:
            pass
        try:
            # a second language of the same process with the same asset types, step and variable names, in which the
            # variable and two steps are defined differently: nothing of the first language may show in its graphs
            Lt = copy.deepcopy(Lo)
            LGF = LG
            for a in Lt['assets']:
                if a['name'] == 'Aa':
                    a['variables'] = [{'name': 'vv', 'stepExpression': LGF.CO(LGF.F('qb'), LGF.F('pb'))}]
                    for st in a['attackSteps']:
                        if st['name'] == 'sfield':
                            st['reaches'] = {'overrides': True, 'stepExpressions': [LGF.CO(LGF.F('qb'), LGF.S('t'))]}
                        if st['name'] == 'ex':
                            st['requires'] = {'overrides': True, 'stepExpressions': [LGF.U(LGF.F('pb'), LGF.F('qb'))]}
            lgt, lcft = MG.make_lang(impl, Lt)
            mt = Model('twin', lcft)
            objs = []
            for k, t in enumerate(['Aa', 'Bb', 'Cc']):
                objs.append(getattr(lcft.ns, t)(name=f'{t.lower()}{k}'))
                mt.add_asset(objs[-1])
            for cls, l, r in [('Pp', 0, 1), ('Qq', 1, 2), ('Qq', 0, 2), ('Pp', 2, 0)]:
                o = getattr(lcft.ns, cls)()
                lf, rf = ('pa', 'pb') if cls == 'Pp' else ('qa', 'qb')
                setattr(o, lf, [objs[l]]); setattr(o, rf, [objs[r]])
                mt.add_association(o)
            pairs.append(('twin', Lt, lgt, lcft, mt))
        except Exception as e:
            metas.append({'label': 'twin', 'nodes': 0, 'serialized': None,
                          'prop_viol': [f'a well-formed language could not be loaded after another language with the same names was loaded in the same process: {type(e).__name__}']})
        # inheritance chains of depth 3 with a step absent / plain / '->' / '+>' at every level (in-process checks only)
        chain_pairs = []
        for ci, L in enumerate(PL.exhaustive_langs(3)):
            if tier == 'quick' and ci % 2:
                continue
            L_before = copy.deepcopy(L)
            try:
                lg, lcf = MG.make_lang(impl, L)
            except Exception:
                lg = None
            if L != L_before:
                metas.append({'label': f'chain{ci}', 'nodes': 0, 'serialized': None,
                              'prop_viol': ['building the language graph changed the language specification it was given'],
                              'lang': [(a['name'], a['superAsset'], [(st['name'], None if st['reaches'] is None else ('->' if st['reaches']['overrides'] else '+>')) for st in a['attackSteps']]) for a in L_before['assets']]})
            if lg is None:
                continue
            m = Model('chain', lcf)
            for t in [a['name'] for a in L['assets']]:
                m.add_asset(getattr(lcf.ns, t)(name=t.lower()))
            chain_pairs.append((f'chain{ci}', L, lg, lcf, m))
        # the shipped language with the shipped example model
        td = os.path.join(C.REPO, 'tests', 'testdata')
        core = os.path.join(td, 'org.mal-lang.coreLang-1.0.0.mar')
        clg = LanguageGraph.from_mar_archive(core)
        clcf = LanguageClassesFactory(clg)
        cm = Model.load_from_file(os.path.join(td, 'simple_example_model.json'), clcf)
        pairs.append(('coreLang', None, clg, clcf, cm))

        batch_mar, batch_mal = [], []
        for label, L, lg, lcf, m0 in pairs + chain_pairs:
            pv = []
            # the model every route starts from is the one in the file (YAML orders the assets by id)
            mfile = os.path.join(scratch, f'{label}.model.' + rng.choice(['json', 'yml']))
            m0.save_to_file(mfile)
            m = Model.load_from_file(mfile, lcf)
            spec_before = copy.deepcopy(lg._lang_spec)
            model_before = json.dumps(m._to_dict(), sort_keys=True, default=str)
            graphs = []
            for k in range(2):
                try:
                    with C.time_limit(20):
                        g = AttackGraph(lg, m)
                        g.attach_attackers()
                        calculate_viability_and_necessity(g)
                    graphs.append(g)
                except Exception as e:
                    pv.append(f'generation raised {type(e).__name__}')
                    break
            def edge_lists(g):
                return [(n.id, [c.id for c in n.children], [q.id for q in n.parents]) for n in g.nodes]
            if len(graphs) == 2:
                a, b = (json.dumps(g._to_dict(), default=str) for g in graphs)
                if a != b:
                    pv.append('two generations in one process give different serialized graphs')
                elif edge_lists(graphs[0]) != edge_lists(graphs[1]):
                    pv.append('two generations in one process give graphs with different edge lists')
                # both graphs generated first, attackers attached and analysis run afterwards: same graphs again
                try:
                    with C.time_limit(30):
                        h1, h2 = AttackGraph(lg, m), AttackGraph(lg, m)
                        for h in (h1, h2):
                            h.attach_attackers()
                            calculate_viability_and_necessity(h)
                    for h in (h1, h2):
                        if json.dumps(h._to_dict(), default=str) != a:
                            pv.append('a graph generated before another one from the same model was attached to / analysed differs from a graph generated on its own')
                            break
                    # a regeneration of a graph that had attackers attached, followed by the same stages: the same graph again
                    with C.time_limit(30):
                        h1.regenerate_graph()
                        h1.attach_attackers()
                        calculate_viability_and_necessity(h1)
                    if json.dumps(h1._to_dict(), default=str) != a or edge_lists(h1) != edge_lists(graphs[0]):
                        pv.append('generate / attach / analyse / regenerate_graph / attach / analyse differs from a fresh generation with the same stages')
                    hid = {id(x) for x in h1.nodes} | {id(x) for x in h1.attackers}
                    if any(id(x) in hid for at in h2.attackers for x in at.reached_attack_steps + at.entry_points) or \
                            any(id(at) in hid for x in h2.nodes for at in x.compromised_by):
                        pv.append('two graphs built from the same model share a node or an attacker')
                except Exception as e:
                    pv.append(f'generation raised {type(e).__name__}')
                ids0 = {id(x) for x in graphs[0].nodes} | {id(x) for x in graphs[0].attackers}
                if any(id(x) in ids0 for x in graphs[1].nodes) or any(id(x) in ids0 for x in graphs[1].attackers):
                    pv.append('two graphs built from the same model share a node or an attacker')
                for x in graphs[1].nodes:
                    if any(id(c) in ids0 for c in x.children + x.parents):
                        pv.append('a node of the second graph is linked to a node of the first')
                        break
            if lg._lang_spec != spec_before:
                pv.append('generation or analysis changed the language specification')
            try:
                model_after = json.dumps(m._to_dict(), sort_keys=True, default=str)
            except Exception as e:
                model_after = None
            if model_after != model_before:
                pv.append("generation or analysis changed the model's serialized form")
            def by_name(g):
                return {n.full_name: (n.type, None if n.defense_status is None else float(n.defense_status), n.existence_status,
                                      bool(n.is_viable), bool(n.is_necessary), json.dumps(n.ttc, sort_keys=True), sorted(str(t) for t in n.tags),
                                      sorted(c.full_name for c in n.children), sorted(a.name for a in n.compromised_by)) for n in g.nodes}
            if not pv and graphs:
                # the model as built through the API (in memory) and the model read from its file denote the same graph
                # (node ids follow the order of the assets, which a YAML file sorts: compared by full name)
                try:
                    with C.time_limit(20):
                        g0 = AttackGraph(lg, m0)
                        g0.attach_attackers()
                        calculate_viability_and_necessity(g0)
                    if by_name(g0) != by_name(graphs[0]):
                        bad_names = [k for k in by_name(g0) if by_name(graphs[0]).get(k) != by_name(g0)[k]][:3]
                        pv.append('the graph generated from the model in memory differs from the graph generated from its saved file (' + ', '.join(bad_names) + ')')
                except Exception as e:
                    pv.append(f'generation raised {type(e).__name__}')
            if not pv and graphs:
                # an edit of the model between two generations: the second graph is the graph of the edited content
                cand = [(c, f, x) for c in m.associations for f in m.get_association_field_names(c)
                        for x in list(getattr(c, f)) if len(getattr(c, f)) >= 2]
                if cand:
                    c, f, x = cand[rng.randrange(len(cand))]
                    try:
                        with C.time_limit(30):
                            m.remove_asset_from_association(x, c)
                            g_same = AttackGraph(lg, m)
                            ef = os.path.join(scratch, f'{label}.edited.json')
                            m.save_to_file(ef)
                            g_fresh = AttackGraph(lg, Model.load_from_file(ef, lcf))
                        if json.dumps(g_same._to_dict(), default=str) != json.dumps(g_fresh._to_dict(), default=str) or edge_lists(g_same) != edge_lists(g_fresh):
                            pv.append('after an edit of the model, generating from the same model object and from a fresh object with the same content give different graphs')
                    except Exception as e:
                        pv.append(f'generation after an edit of the model raised {type(e).__name__}')
            if pv:
                # already a violation with a concrete pair: the further routes would only repeat it (and, with inputs disturbed
                # by generation, can take very long)
                metas.append({'label': label, 'prop_viol': pv, 'nodes': len(graphs[0].nodes) if graphs else 0, 'serialized': None})
                continue
            # files for the fresh interpreters
            if label.startswith('chain'):
                metas.append({'label': label, 'prop_viol': pv, 'nodes': len(graphs[0].nodes) if graphs else 0, 'serialized': None})
                try:
                    view = MG.view(m)
                    obs, g0 = PG.observe(impl, lg, m)
                    cases.append(f'({LG.c_lang(L)}, {MG.c_imodel(view)}, {C.cjv(obs)})')
                except Exception as e:
                    pv.append(f'generation raised {type(e).__name__}')
                continue
            if L is not None:
                mar = os.path.join(scratch, f'{label}.mar')
                with zipfile.ZipFile(mar, 'w') as z:
                    z.writestr('langspec.json', json.dumps(L))
                try:
                    text = MS.render([t for d in MS.decl_tokens(L) for t in d])
                    mal = os.path.join(scratch, f'{label}.mal')
                    open(mal, 'w', encoding='utf-8').write(text)
                    batch_mal.append((label, mal, mfile))
                    # the same language split over a root file and an included file, compiled twice in this process: both
                    # compilations give the specification of the single file
                    dts = MS.decl_tokens(L)
                    if len(dts) >= 2:
                        cut = rng.randrange(1, len(dts))
                        open(os.path.join(scratch, f'{label}_part.mal'), 'w', encoding='utf-8').write(MS.render([t for d in dts[cut:] for t in d]))
                        split = os.path.join(scratch, f'{label}_split.mal')
                        open(split, 'w', encoding='utf-8').write(MS.render([t for d in dts[:cut] for t in d] + [('kw', 'include'), ('str', f'{label}_part.mal')]))
                        try:
                            with C.time_limit(40):
                                single = LanguageGraph.from_mal_spec(mal)._lang_spec
                                for attempt in (1, 2):
                                    if LanguageGraph.from_mal_spec(split)._lang_spec != single:
                                        pv.append(f'compilation number {attempt} in this process of a source with an include differs from the compilation of the same declarations in one file')
                                        break
                        except Exception as e:
                            pv.append(f'compiling a source with an include (twice in one process) raised {type(e).__name__}')
                except (MS.Unprintable, ValueError):
                    pass
            else:
                mar = core
            # the wrapper with its optional stages switched off, against the direct API running the same stages
            from maltoolbox.wrappers import create_attack_graph
            for fa, fc in ((False, True), (True, False), (False, False)):
                try:
                    with C.time_limit(40):
                        gw = create_attack_graph(mar, mfile, attach_attackers=fa, calc_viability_and_necessity=fc)
                        lg2 = LanguageGraph.from_mar_archive(mar)
                        gd = AttackGraph(lg2, Model.load_from_file(mfile, LanguageClassesFactory(lg2)))
                        if fa: gd.attach_attackers()
                        if fc: calculate_viability_and_necessity(gd)
                    if json.dumps(gw._to_dict(), default=str) != json.dumps(gd._to_dict(), default=str):
                        pv.append(f'create_attack_graph(attach_attackers={fa}, calc_viability_and_necessity={fc}) differs from the direct API running the same stages')
                except Exception as e:
                    pv.append(f'create_attack_graph(attach_attackers={fa}, calc_viability_and_necessity={fc}) raised {type(e).__name__}')
            batch_mar.append((label, mar, mfile))
            metas.append({'label': label, 'prop_viol': pv, 'nodes': len(graphs[0].nodes) if graphs else 0,
                          'serialized': json.dumps(PG_canon(graphs[0]), default=str) if graphs else None})
            # model comparison for the in-process graph (generation only)
            if L is not None:
                try:
                    view = MG.view(m)
                    obs, g0 = PG.observe(impl, lg, m)
                    cases.append(f'({LG.c_lang(L)}, {MG.c_imodel(view)}, {C.cjv(obs)})')
                except Exception as e:
                    pv.append(f'a further generation from the same model raised {type(e).__name__}')
        # the fresh interpreters take the pairs in another order than this process did (last pair first), so that nothing
        # a process keeps from the languages it loaded earlier can make the two agree by accident
        batch_mar.reverse()
        batch_mal.reverse()
        jobs = []
        for route, batch in (('direct', batch_mar), ('wrapper', batch_mar), ('wrapper-mal', batch_mal), ('direct-mal', batch_mal)):
            bf = os.path.join(scratch, f'batch_{route}.json')
            json.dump([[b[1], b[2]] for b in batch], open(bf, 'w'))
            for sd in SEEDS:
                jobs.append((route.split('-')[0], route, bf, sd, [b[0] for b in batch]))
        results = {}
        with ThreadPoolExecutor(max_workers=C.NCPU) as ex:
            futs = [(j, ex.submit(run_driver, j[0], j[2], j[3], scratch)) for j in jobs]
            for j, f in futs:
                _, lines, rc = f.result()
                for label, line in zip(j[4], lines):
                    results.setdefault(label, {})[(j[1], j[3])] = line
                for label in j[4][len(lines):]:
                    results.setdefault(label, {})[(j[1], j[3])] = '["error", "no output"]'
        runs = 0
        for mta in metas:
            label = mta['label']
            outs = results.get(label, {})
            runs += len(outs)
            ref = '["ok", ' + mta['serialized'] + ']' if mta['serialized'] else None
            distinct = {}
            for key, line in outs.items():
                distinct.setdefault(line, []).append(key)
            if len(distinct) > 1:
                groups = sorted(distinct.values(), key=len)
                minority = groups[0][0]
                same_route = [k for k in groups[-1] if k[0] == minority[0]]
                if same_route:
                    mta['prop_viol'].append(f'graphs generated in fresh interpreters with different hash seeds differ ({minority[0]}, PYTHONHASHSEED={minority[1]} vs {same_route[0][1]})')
                else:
                    mta['prop_viol'].append(f'the graph depends on the route by which it is generated ({minority[0]} vs {groups[-1][0][0]})')
            elif ref is not None and outs and next(iter(distinct)) != ref:
                mta['prop_viol'].append('graphs generated in fresh interpreters differ from the graph generated in this process')
            mta['runs'] = len(outs)
        bad, counters, errors = C.run_cases(pid, PG.IMPORTS, PG.CASE_TYPE, PG.CHECK_DEF, cases, PG.EXTRA, shard=10)
    if errors:
        violations.append({'message': 'the correspondence could not be evaluated', 'cause': 'coq-error', 'correspondence': 'corr_C16_generate', 'errors': errors[:3]})
    by_cause = {}
    for m in metas:
        for v in m['prop_viol']:
            by_cause.setdefault(v.split(' (')[0], []).append((v, m))
    for cause, ms in sorted(by_cause.items()):
        v, m = min(ms, key=lambda x: x[1]['nodes'])
        violations.append({'message': v, 'cause': cause, 'failing_input_found': True, 'pair': m['label'], 'nodes': m['nodes'], 'language': m.get('lang'), 'cases_violating': len(ms)})
    if bad and not by_cause:
        violations.append({'message': 'implementation and model disagree; no input found on which the property itself fails',
                           'cause': 'model-mismatch', 'correspondence': 'corr_C16_generate (GenObs.gen_check)', 'mismatching_cases': len(bad)})
    cov = {'evaluations': runs + len(cases), 'distinct_nontrivial': len({m['serialized'] for m in metas if m['nodes'] > 5}),
           'rule': 'random languages (steps with several tags) and models with attackers, and coreLang with the shipped example model; per pair: two '
                   'in-process generations with attach and analysis, then fresh interpreters for PYTHONHASHSEED in {0,1,2,3,random} x routes '
                   '{direct from .mar, create_attack_graph from .mar, create_attack_graph from .mal, direct from .mal}; every serialized graph '
                   '(attack steps in order with attributes, children / parents in order, attackers) must be the same text; non-trivial = more than 5 nodes',
           'samples': [m['label'] for m in metas[:3]], 'configurations': {'seeds': SEEDS, 'routes': ['direct', 'wrapper', 'wrapper-mal', 'direct-mal']},
           'subprocess_runs': runs, 'pairs': len(metas), 'premises_met': counters.get('PREMISES', 0), 'mismatches': len(bad), 'exhaustive': False}
    return {'violations': violations, 'coverage': cov,
            'trusted': ['process start-up, hashing and the file system are outside the model: different hash seeds and processes are exercised, not proved'],
            'assumptions': ['theorems are about the Gallina model, in which generation is a function of the language and the model view; the model is '
                            'tied to the code by this run only']}


def PG_canon(g):
    import importlib.util
    spec = importlib.util.spec_from_file_location('c16_driver_local', os.path.join(C.VERIF, 'harness', 'c16_driver.py'))
    # the same canonical form as the driver, without importing it as a script
    d = g._to_dict()
    steps = [[k, [[kk, (list(vv.items()) if isinstance(vv, dict) else vv)] for kk, vv in v.items()]] for k, v in d['attack_steps'].items()]
    atts = [[str(k), [[kk, (list(vv.items()) if isinstance(vv, dict) else vv)] for kk, vv in v.items()]] for k, v in d['attackers'].items()]
    return [steps, atts]


def replay(pid, path):
    print(json.dumps(json.load(open(path)), indent=1, default=str)[:8000])
    return 0
