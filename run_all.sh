#!/bin/bash
# usage: run_all.sh [quick|thorough] — every check of MANIFEST.json on /repo's working tree; non-zero if any fails
TIER=${1:-quick}
cd "$(dirname "$0")"
( cd coq && coq_makefile -f _CoqProject -o Makefile >/dev/null 2>&1 && timeout 3000 make -j16 >/dev/null 2>&1 ) || { echo "coq build failed"; exit 1; }
rc=0
for p in C01 C02 C03 C04 C05 C06 C07 C08 C09 C10 C11 C12 C13 C14 C15 C16 C17 C18 C19; do
  s=$(date +%s)
  out=$(timeout 7200 ./check $p --tier $TIER 2>&1); r=$?
  echo "$out" | tail -3
  [ $r -ne 0 ] && rc=1
done
exit $rc
